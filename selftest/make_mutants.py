#!/venv/bin/python
"""Generate the hand-written 'must catch' mutants of DESIGN.md section 3 as patch files under
selftest/mutants/ (each a single realistic edit against /repo HEAD)."""
import json
import os
import subprocess
import tempfile

HERE = os.path.dirname(os.path.abspath(__file__))
G = "spatialpandas/geometry/"
M = [
    # name, file, old, new, properties expected to fire
    ("c01-bbox-reject-ge", G + "_algorithms/intersection.py",
     "    if bounds[0] > x1 or bounds[1] > y1 or bounds[2] < x0 or bounds[3] < y0:\n        # bounds outside of rect, does not intersect\n        return\n\n    if ((bounds[0] >= x0 and bounds[2] <= x1) or\n            (bounds[1] >= y0 and bounds[3] <= y1)):\n        # bounds is fully contained in rect when both are projected onto the\n        # x or y axis\n        result[i] = True\n        return\n\n    # Check for vertices in rect\n    vert_in_rect = False\n    for j in range(start, stop, 2):",
     "    if bounds[0] >= x1 or bounds[1] > y1 or bounds[2] < x0 or bounds[3] < y0:\n        # bounds outside of rect, does not intersect\n        return\n\n    if ((bounds[0] >= x0 and bounds[2] <= x1) or\n            (bounds[1] >= y0 and bounds[3] <= y1)):\n        # bounds is fully contained in rect when both are projected onto the\n        # x or y axis\n        result[i] = True\n        return\n\n    # Check for vertices in rect\n    vert_in_rect = False\n    for j in range(start, stop, 2):",
     ["C01"]),
    ("c01-polygon-skip-last-ring", G + "_algorithms/intersection.py",
     "    for j in range(start0, stop0):\n        for k in range(offsets1[j], offsets1[j + 1] - 2, 2):",
     "    for j in range(start0, max(start0 + 1, stop0 - 1)):\n        for k in range(offsets1[j], offsets1[j + 1] - 2, 2):",
     ["C01"]),
    ("c01-inds-ignored-multiline", G + "multiline.py",
     "        if inds is not None:\n            start_offsets0 = start_offsets0[inds]\n            stop_offsets0 = stop_offsets0[inds]\n\n        result = np.zeros(len(start_offsets0), dtype=np.bool_)\n        multilines_intersect_bounds(",
     "        if inds is not None:\n            start_offsets0 = start_offsets0[np.sort(inds)]\n            stop_offsets0 = stop_offsets0[np.sort(inds)]\n\n        result = np.zeros(len(start_offsets0), dtype=np.bool_)\n        multilines_intersect_bounds(",
     ["C01"]),
    ("c02-half-open-rule", G + "_algorithms/intersection.py",
     "            if y0 >= y or y1 < y or (x0 < x and x1 < x):",
     "            if y0 > y or y1 < y or (x0 < x and x1 < x):", ["C02"]),
    ("c02-segment-bbox", G + "_algorithms/intersection.py",
     "    if bx < min(ax0, ax1) or bx > max(ax0, ax1):", "    if bx < min(ax0, ax1) or bx >= max(ax0, ax1):", ["C02"]),
    ("c03-leaf-covers-strict", "spatialpandas/spatialindex/rtree.py",
     "                covers_mask &= (bounds_slice[:, d] >= query_bounds[d])",
     "                covers_mask &= (bounds_slice[:, d] > query_bounds[d])", ["C03", "C04"]),
    ("c03-outside-le", "spatialpandas/spatialindex/rtree.py",
     "                outside_mask |= (bounds_slice[:, d + n] < query_bounds[d])\n                outside_mask |= (bounds_slice[:, d] > query_bounds[d + n])\n\n            next_slice = next_slice[~outside_mask]",
     "                outside_mask |= (bounds_slice[:, d + n] <= query_bounds[d])\n                outside_mask |= (bounds_slice[:, d] > query_bounds[d + n])\n\n            next_slice = next_slice[~outside_mask]",
     ["C03"]),
    ("c04-no-sort", G + "base.py",
     "            selected_inds = np.sort(\n                np.concatenate([covers_inds, overlaps_inds[overlaps_inds_mask]])\n            )",
     "            selected_inds = (\n                np.concatenate([covers_inds, overlaps_inds[overlaps_inds_mask]])\n            )", ["C04"]),
    ("c04-no-swap-y", G + "base.py", "        if y1 < y0:\n            y0, y1 = y1, y0\n        return x0, x1, y0, y1",
     "        return x0, x1, y0, y1", ["C04"]),
    ("c05-left-join-inner", "spatialpandas/tools/sjoin.py",
     "                result, left_index=True, right_index=True, how=\"left\"\n", "                result, left_index=True, right_index=True\n", ["C05"]),
    ("c07-gray-step", "spatialpandas/spatialindex/hilbert_curve.py",
     "    for i in range(1, n):\n        coord[i] ^= coord[i - 1]\n    t = 0", "    for i in range(1, n):\n        coord[i] ^= coord[0]\n    t = 0", ["C07"]),
    ("c08-clamp-upper", "spatialpandas/utils.py", "    res[res > n - 1] = n - 1", "    res[res > n] = n", ["C08", "C09"]),
    ("c08-xy-swapped", "spatialpandas/spatialindex/rtree.py",
     "    dim_mids = [(bounds[:, d] + bounds[:, d + n]) / 2.0 for d in range(n)]",
     "    dim_mids = [(bounds[:, n - 1 - d] + bounds[:, 2 * n - 1 - d]) / 2.0 for d in range(n)]", ["C08"]),
    ("c09-local-bounds", "spatialpandas/dask.py",
     "            lambda s: s.hilbert_distance(total_bounds=total_bounds, p=p))",
     "            lambda s: s.hilbert_distance(p=p))", ["C09", "C10"]),
    ("c11-lexicographic-pieces", "spatialpandas/io/parquet.py",
     "        dataset_pieces = sorted(fragments, key=lambda piece: natural_sort_key(piece.path))",
     "        dataset_pieces = sorted(fragments, key=lambda piece: piece.path)", ["C11", "C12"]),
    ("c12-prune-le", "spatialpandas/io/parquet.py", "            (partitions_df.x1 < x0) |", "            (partitions_df.x1 <= x0) |", ["C12"]),
    ("c12-bounds-not-reindexed", "spatialpandas/io/parquet.py",
     "        for col in list(partition_bounds):\n            partition_bounds[col] = partition_bounds[col][inds]",
     "        for col in [geometry]:\n            partition_bounds[col] = partition_bounds[col][inds]", ["C12"]),
    ("c13-x-only-finite", G + "_algorithms/bounds.py",
     "        y = values[i + 1]\n        if np.isfinite(y):\n            ymin = min(ymin, y)",
     "        y = values[i + 1]\n        if np.isfinite(x):\n            ymin = min(ymin, y)", ["C13"]),
    ("c14-wraparound", G + "_algorithms/measures.py", "        lasty = values[stop - 3]", "        lasty = values[stop - 1]", ["C14"]),
    ("c14-degenerate-skip", G + "_algorithms/measures.py", "        if poly_length < 6:", "        if poly_length <= 8:", ["C14"]),
    ("c15-flip-x-only", G + "_algorithms/orientation.py",
     "        values[flip_start + 1:flip_stop:2] = ys[::-1]", "        values[flip_start + 1:flip_stop:2] = ys", ["C15"]),
    ("c15-no-copy", G + "polygon.py", "        buffer_values = self.buffer_values.copy()\n        poly_offsets, ring_offsets = self.buffer_offsets",
     "        buffer_values = self.buffer_values\n        poly_offsets, ring_offsets = self.buffer_offsets", ["C15"]),
    ("c16-isna-offset", G + "base.py", "        idx = bitmap_offset + i\n", "        idx = i\n", ["C16", "C13"]),
    ("c16-fixed-offset", G + "basefixed.py", "            start = self.data.offset * self._element_len", "            start = 0", ["C16"]),
    ("c17-nan-not-excluded", "spatialpandas/spatialindex/rtree.py", "        if undefined.any():", "        if False and undefined.any():", ["C17", "C03"]),
    ("c20-constructor-first-col", "spatialpandas/geodataframe.py",
     "            if isinstance(data, GeoDataFrame) and data._has_valid_geometry():\n                geometry = data._geometry",
     "            if isinstance(data, GeoDataFrame) and data._has_valid_geometry() and False:\n                geometry = data._geometry", ["C20"]),
    ("c10-common-metadata-wrong-part", "spatialpandas/dask.py",
     "        for p1, p2 in zip(input_paths, output_paths, strict=True):\n            if p1 != p2:\n                move_retry(p1, p2)",
     "        for p1, p2 in zip(input_paths, output_paths, strict=True):\n            if p1 != p2 and not filesystem.exists(p2):\n                move_retry(p1, p2)", ["C10"]),
    ("c19-rm-not-rechecked", "spatialpandas/dask.py",
     "                filesystem.rm(file_path, recursive=True)\n                if filesystem.exists(file_path):",
     "                filesystem.rm(file_path, recursive=True)\n                if False and filesystem.exists(file_path):", ["C19"]),
    ("c19-listing-check-removed", "spatialpandas/dask.py",
     "            if subpart_paths_stripped != ls_res:", "            if len(subpart_paths_stripped) > len(ls_res) + 1:", ["C19"]),
    ("c18-fill-in-loop", G + "_algorithms/intersection.py",
     "    for i in prange(n):\n        start = start_offsets[i]\n        stop = stop_offsets[i]\n\n        # Check for points in rect",
     "    for i in prange(n):\n        if i % 1024 == 0:\n            result[i:i + 1024] = False\n        start = start_offsets[i]\n        stop = stop_offsets[i]\n\n        # Check for points in rect",
     ["C18"]),
    ("c09-reserved-column-returned-unchanged", "spatialpandas/dask.py",
     "            raise ValueError(\n                \"Cannot pack a frame that already has a column named 'hilbert_distance'. \"\n                \"Rename that column first\"\n            )\n",
     "            return self\n", ["C09", "C10"]),
    ("c05-key-column-check-removed", "spatialpandas/tools/sjoin.py",
     "    key_columns = [\"_key_left\", \"_key_right\"]\n    if any(", "    key_columns = []\n    if any(", ["C05"]),
    ("c06-min-not-nanmin", "spatialpandas/dask.py", "            np.nanmin(partition_bounds['x0']),", "            np.min(partition_bounds['x0']),", ["C06", "C13"]),
]


def main():
    outdir = os.path.join(HERE, "mutants")
    os.makedirs(outdir, exist_ok=True)
    wt = tempfile.mkdtemp(prefix="vmk-")
    os.rmdir(wt)
    subprocess.run(["git", "-C", "/repo", "worktree", "add", "-q", "--detach", wt, "HEAD"], check=True)
    index = {}
    try:
        for name, f, old, new, props in M:
            p = os.path.join(wt, f)
            s = open(p).read()
            if s.count(old) != 1:
                print("SKIP (pattern count %d): %s" % (s.count(old), name))
                continue
            open(p, "w").write(s.replace(old, new))
            d = subprocess.run(["git", "-C", wt, "diff"], capture_output=True, text=True).stdout
            open(os.path.join(outdir, name + ".diff"), "w").write(d)
            index[name] = props
            subprocess.run(["git", "-C", wt, "checkout", "-q", "--", "."], check=True)
    finally:
        subprocess.run(["git", "-C", "/repo", "worktree", "remove", "--force", wt])
    json.dump(index, open(os.path.join(outdir, "INDEX.json"), "w"), indent=1)
    print(len(index), "mutants written")


if __name__ == "__main__":
    main()
