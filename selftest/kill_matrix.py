#!/venv/bin/python
"""Run every selftest/mutants/*.diff against the checks listed for it; prints the kill matrix."""
import json, os, sys, concurrent.futures as cf
HERE = os.path.dirname(os.path.abspath(__file__))
sys.path.insert(0, HERE)
from run_mutants import run_one
idx = json.load(open(os.path.join(HERE, "mutants", "INDEX.json")))
only = sys.argv[1:] 
jobs = [(n, p) for n, p in idx.items() if not only or any(o in n for o in only)]
def go(j):
    n, props = j
    return n, run_one(os.path.join(HERE, "mutants", n + ".diff"), props)
with cf.ThreadPoolExecutor(max_workers=3) as ex:
    for n, res in ex.map(go, jobs):
        line = " ".join(f"{p}:{'KILLED' if r.get('rc') == 1 else 'SURVIVED(rc=%s)' % r.get('rc')}" for p, r in res.items()) if "error" not in res else res["error"]
        print(f"{n:36s} {line}", flush=True)
        for p, r in res.items():
            if isinstance(r, dict) and r.get("mechanisms"):
                print("      ", p, r["mechanisms"][0][:200], flush=True)
