#!/venv/bin/python
"""Kill-matrix runner: apply a patch to a scratch worktree of /repo (HEAD), run the given
properties' checks with VERIF_REPO pointing at it, report which checks fire.

  run_mutants.py <patch.diff> <Cxx>[,<Cyy>...] [--tier quick|thorough] [--seed N]
  run_mutants.py --all      # every selftest/mutants/*.diff and seeded/*/patch.diff with its meta

The scratch worktree lives under mktemp and is removed afterwards; /repo is never touched."""
import json
import os
import subprocess
import sys
import tempfile

HERE = os.path.dirname(os.path.dirname(os.path.abspath(__file__)))


def run_one(patch, props, tier="quick", seed="0"):
    wt = tempfile.mkdtemp(prefix="vmut-")
    os.rmdir(wt)
    subprocess.run(["git", "-C", "/repo", "worktree", "add", "-q", "--detach", wt, "HEAD"], check=True)
    out = {}
    try:
        r = subprocess.run(["git", "-C", wt, "apply", os.path.abspath(patch)], capture_output=True, text=True)
        if r.returncode != 0:
            return {"error": "patch does not apply: " + r.stderr[-300:]}
        for p in props:
            env = dict(os.environ, VERIF_REPO=wt, VERIF_SEED=str(seed))
            env.pop("VERIF_TIER", None)
            r = subprocess.run(["/venv/bin/python", os.path.join(HERE, "vcheck.py"), p, "--tier", tier],
                               cwd=HERE, env=env, capture_output=True, text=True)
            mechs = [l.strip() for l in r.stdout.splitlines() if l.strip().startswith("clause=")]
            out[p] = {"rc": r.returncode, "mechanisms": mechs[:4]}
    finally:
        subprocess.run(["git", "-C", "/repo", "worktree", "remove", "--force", wt])
        # evidence of the unchanged tree must not be left overwritten by a mutant run
    return out


def main():
    args = sys.argv[1:]
    tier, seed = "quick", "0"
    if "--tier" in args:
        tier = args[args.index("--tier") + 1]
    if "--seed" in args:
        seed = args[args.index("--seed") + 1]
    if args and args[0] == "--all":
        jobs = []
        sdir = os.path.join(HERE, "seeded")
        for d in sorted(os.listdir(sdir)) if os.path.isdir(sdir) else []:
            meta = os.path.join(sdir, d, "meta.json")
            if os.path.exists(meta):
                m = json.load(open(meta))
                jobs.append((os.path.join(sdir, d, "patch.diff"), m.get("checks") or [m["property"]], d))
        for patch, props, name in jobs:
            res = run_one(patch, props, tier, seed)
            print(name, json.dumps(res))
        return
    patch, props = args[0], args[1].split(",")
    print(json.dumps(run_one(patch, props, tier, seed), indent=1))


if __name__ == "__main__":
    main()
