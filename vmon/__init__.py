"""Runtime-monitoring machinery for the spatialpandas properties C01..C20.

Everything here executes the *real* code of the repository (imported from
$VERIF_REPO, default /repo) and watches it with oracles, monitors and trace
checkers.  See /verif/DESIGN.md.
"""
import os

VERIF_DIR = os.path.dirname(os.path.dirname(os.path.abspath(__file__)))
REPO_DIR = os.environ.get("VERIF_REPO", "/repo")
GUARD = "SPATIALPANDAS_VERIF"
PYTHON = "/venv/bin/python"
