"""Exact geometry oracles, independent of the implementation's data path.

Coordinates handed to the scalar functions are exact numbers (Python int or Fraction).
The *_many functions are numpy-int64 vectorisations for sweeps; callers scale all
coordinates to integers first (half-grid -> multiply by 2).  Magnitudes up to 2**28 keep
every cross product below 2**58.

A second, geometry-free oracle (the raster oracle) applies to rectilinear polygons
generated from unit-cell sets; it cross-checks the general oracle.
"""
from fractions import Fraction as Fr

import numpy as np


# ---------------------------------------------------------------------------------------
# helpers
# ---------------------------------------------------------------------------------------
def pts_of(flat):
    return list(zip(flat[0::2], flat[1::2]))


def norm_box(box):
    x0, y0, x1, y1 = box
    if x1 < x0:
        x0, x1 = x1, x0
    if y1 < y0:
        y0, y1 = y1, y0
    return x0, y0, x1, y1


def to_exact(v):
    """float/int -> exact rational (ints stay ints)."""
    if isinstance(v, (int, Fr)):
        return v
    if isinstance(v, (np.integer,)):
        return int(v)
    f = Fr(float(v))
    return int(f) if f.denominator == 1 else f


# ---------------------------------------------------------------------------------------
# segment / box (separating axis theorem, exact)
# ---------------------------------------------------------------------------------------
def seg_box(p, q, box):
    """Closed segment p-q meets closed (normalised) box."""
    x0, y0, x1, y1 = box
    px, py = p
    qx, qy = q
    if max(px, qx) < x0 or min(px, qx) > x1 or max(py, qy) < y0 or min(py, qy) > y1:
        return False
    dx, dy = qx - px, qy - py
    if dx == 0 and dy == 0:
        return True
    pos = neg = 0
    for cx, cy in ((x0, y0), (x1, y0), (x1, y1), (x0, y1)):
        s = dx * (cy - py) - dy * (cx - px)
        if s > 0:
            pos += 1
        elif s < 0:
            neg += 1
    return not (pos == 4 or neg == 4)


def seg_box_lb(p, q, box):
    """Same predicate by exact Liang-Barsky clipping (used only to cross-check seg_box)."""
    x0, y0, x1, y1 = box
    px, py = p
    qx, qy = q
    dx, dy = qx - px, qy - py
    t0, t1 = Fr(0), Fr(1)
    for pp, qq in ((-dx, px - x0), (dx, x1 - px), (-dy, py - y0), (dy, y1 - py)):
        if pp == 0:
            if qq < 0:
                return False
        else:
            r = Fr(qq) / Fr(pp)
            if pp < 0:
                if r > t1:
                    return False
                if r > t0:
                    t0 = r
            else:
                if r < t0:
                    return False
                if r < t1:
                    t1 = r
    return t0 <= t1


def point_in_box(p, box):
    x0, y0, x1, y1 = box
    return x0 <= p[0] <= x1 and y0 <= p[1] <= y1


def multipoint_box(flat, box):
    return any(point_in_box(p, box) for p in pts_of(flat))


def line_box(flat, box):
    pts = pts_of(flat)
    if not pts:
        return False
    if len(pts) == 1:
        return point_in_box(pts[0], box)
    return any(seg_box(pts[i], pts[i + 1], box) for i in range(len(pts) - 1))


def multiline_box(lines, box):
    return any(line_box(ln, box) for ln in lines)


# ---------------------------------------------------------------------------------------
# point vs rings (even-odd parity with exact on-boundary detection)
# ---------------------------------------------------------------------------------------
def point_on_seg(p, a, b):
    x, y = p
    ax, ay = a
    bx, by = b
    if x < min(ax, bx) or x > max(ax, bx) or y < min(ay, by) or y > max(ay, by):
        return False
    return (bx - ax) * (y - ay) - (by - ay) * (x - ax) == 0


def point_vs_rings(p, rings):
    """'in' / 'out' / 'bd' of p against the region bounded by *rings* (even-odd rule)."""
    x, y = p
    inside = False
    for flat in rings:
        pts = pts_of(flat)
        if len(pts) == 1 and pts[0] == (x, y):
            return "bd"
        for a, b in zip(pts, pts[1:]):
            if point_on_seg(p, a, b):
                return "bd"
            ax, ay = a
            bx, by = b
            if (ay > y) != (by > y):
                cross = (bx - ax) * (y - ay) - (by - ay) * (x - ax)
                if (by > ay and cross > 0) or (by < ay and cross < 0):
                    inside = not inside
    return "in" if inside else "out"


def polygon_box(rings, box):
    for flat in rings:
        if line_box(flat, box):
            return True
    x0, y0, x1, y1 = box
    c = (Fr(x0 + x1) / 2, Fr(y0 + y1) / 2)
    return point_vs_rings(c, rings) == "in"


def multipolygon_box(parts, box):
    return any(polygon_box(rings, box) for rings in parts)


def point_vs_polygon(p, rings):
    return point_vs_rings(p, rings)


def point_vs_multipolygon(p, parts):
    res = "out"
    for rings in parts:
        c = point_vs_rings(p, rings)
        if c == "bd":
            return "bd"
        if c == "in":
            res = "in"
    return res


def point_on_line(p, flat):
    pts = pts_of(flat)
    if p in pts:
        return True
    return any(point_on_seg(p, a, b) for a, b in zip(pts, pts[1:]))


def element_box(kind, el, box):
    """Oracle for intersects_bounds of one element (None / empty -> False)."""
    if el is None:
        return False
    box = norm_box(box)
    if kind == "point":
        return point_in_box(tuple(el), box)
    if kind == "multipoint":
        return multipoint_box(el, box)
    if kind in ("line", "ring"):
        return line_box(el, box)
    if kind == "multiline":
        return multiline_box(el, box)
    if kind == "polygon":
        return polygon_box(el, box)
    if kind == "multipolygon":
        return multipolygon_box(el, box)
    raise ValueError(kind)


def point_vs_shape(kind, shape, p):
    """True / False / 'bd' for Point(p).intersects(shape)."""
    if kind == "point":
        return tuple(shape) == tuple(p)
    if kind == "multipoint":
        return tuple(p) in pts_of(shape)
    if kind in ("line", "ring"):
        return point_on_line(tuple(p), shape)
    if kind == "multiline":
        return any(point_on_line(tuple(p), ln) for ln in shape)
    if kind == "polygon":
        c = point_vs_polygon(tuple(p), shape)
    elif kind == "multipolygon":
        c = point_vs_multipolygon(tuple(p), shape)
    else:
        raise ValueError(kind)
    return "bd" if c == "bd" else (c == "in")


# ---------------------------------------------------------------------------------------
# vectorised int64 versions (many boxes / many points against one element)
# ---------------------------------------------------------------------------------------
def _seg_box_many(px, py, qx, qy, B):
    x0, y0, x1, y1 = B[:, 0], B[:, 1], B[:, 2], B[:, 3]
    ok = ~((max(px, qx) < x0) | (min(px, qx) > x1) | (max(py, qy) < y0) | (min(py, qy) > y1))
    dx, dy = qx - px, qy - py
    if dx == 0 and dy == 0:
        return ok
    s1 = dx * (y0 - py) - dy * (x0 - px)
    s2 = dx * (y0 - py) - dy * (x1 - px)
    s3 = dx * (y1 - py) - dy * (x1 - px)
    s4 = dx * (y1 - py) - dy * (x0 - px)
    allpos = (s1 > 0) & (s2 > 0) & (s3 > 0) & (s4 > 0)
    allneg = (s1 < 0) & (s2 < 0) & (s3 < 0) & (s4 < 0)
    return ok & ~(allpos | allneg)


def line_box_many(flat, B):
    """flat: python ints; B: int64 (m,4) normalised boxes."""
    pts = pts_of(flat)
    m = B.shape[0]
    out = np.zeros(m, dtype=bool)
    if not pts:
        return out
    if len(pts) == 1:
        x, y = pts[0]
        return (B[:, 0] <= x) & (x <= B[:, 2]) & (B[:, 1] <= y) & (y <= B[:, 3])
    for (px, py), (qx, qy) in zip(pts, pts[1:]):
        out |= _seg_box_many(px, py, qx, qy, B)
    return out


def points_vs_rings_many(X, Y, rings):
    """codes: 0 out, 1 in, 2 boundary.  X, Y int64 arrays, rings of python ints."""
    inside = np.zeros(X.shape, dtype=bool)
    bd = np.zeros(X.shape, dtype=bool)
    for flat in rings:
        pts = pts_of(flat)
        if len(pts) == 1:
            bd |= (X == pts[0][0]) & (Y == pts[0][1])
        for (ax, ay), (bx, by) in zip(pts, pts[1:]):
            cross = (bx - ax) * (Y - ay) - (by - ay) * (X - ax)
            inbb = ((X >= min(ax, bx)) & (X <= max(ax, bx)) & (Y >= min(ay, by))
                    & (Y <= max(ay, by)))
            bd |= inbb & (cross == 0)
            if ay != by:
                strad = (ay > Y) != (by > Y)
                if by > ay:
                    inside ^= strad & (cross > 0)
                else:
                    inside ^= strad & (cross < 0)
    return np.where(bd, 2, inside.astype(np.int64))


def polygon_box_many(rings, B):
    """Coordinates must be *even* integers or the caller passes doubled coordinates:
    the box centre (x0+x1)/2 is evaluated in doubled coordinates internally."""
    m = B.shape[0]
    out = np.zeros(m, dtype=bool)
    for flat in rings:
        out |= line_box_many(flat, B)
    rest = ~out
    if rest.any():
        cx = B[rest, 0] + B[rest, 2]
        cy = B[rest, 1] + B[rest, 3]
        rings2 = [[2 * v for v in flat] for flat in rings]
        code = points_vs_rings_many(cx, cy, rings2)
        out[rest] = code == 1
    return out


def element_box_many(kind, el, B):
    m = B.shape[0]
    if el is None:
        return np.zeros(m, dtype=bool)
    if kind == "point":
        x, y = el
        return (B[:, 0] <= x) & (x <= B[:, 2]) & (B[:, 1] <= y) & (y <= B[:, 3])
    if kind == "multipoint":
        out = np.zeros(m, dtype=bool)
        for x, y in pts_of(el):
            out |= (B[:, 0] <= x) & (x <= B[:, 2]) & (B[:, 1] <= y) & (y <= B[:, 3])
        return out
    if kind in ("line", "ring"):
        return line_box_many(el, B)
    if kind == "multiline":
        out = np.zeros(m, dtype=bool)
        for ln in el:
            out |= line_box_many(ln, B)
        return out
    if kind == "polygon":
        return polygon_box_many(el, B)
    if kind == "multipolygon":
        out = np.zeros(m, dtype=bool)
        for rings in el:
            out |= polygon_box_many(rings, B)
        return out
    raise ValueError(kind)


def points_vs_shape_many(kind, shape, X, Y):
    """codes 0 False, 1 True, 2 boundary (polygon kinds only)."""
    z = np.zeros(X.shape, dtype=np.int64)
    if kind == "point":
        return ((X == shape[0]) & (Y == shape[1])).astype(np.int64)
    if kind == "multipoint":
        out = np.zeros(X.shape, dtype=bool)
        for x, y in pts_of(shape):
            out |= (X == x) & (Y == y)
        return out.astype(np.int64)
    if kind in ("line", "ring", "multiline"):
        lines = [shape] if kind != "multiline" else shape
        out = np.zeros(X.shape, dtype=bool)
        for flat in lines:
            pts = pts_of(flat)
            for x, y in pts:
                out |= (X == x) & (Y == y)
            for (ax, ay), (bx, by) in zip(pts, pts[1:]):
                cross = (bx - ax) * (Y - ay) - (by - ay) * (X - ax)
                out |= ((X >= min(ax, bx)) & (X <= max(ax, bx)) & (Y >= min(ay, by))
                        & (Y <= max(ay, by)) & (cross == 0))
        return out.astype(np.int64)
    if kind == "polygon":
        return points_vs_rings_many(X, Y, shape)
    if kind == "multipolygon":
        res = z.copy()
        bd = np.zeros(X.shape, dtype=bool)
        for rings in shape:
            c = points_vs_rings_many(X, Y, rings)
            bd |= c == 2
            res |= (c == 1).astype(np.int64)
        return np.where(bd, 2, res)
    raise ValueError(kind)


# ---------------------------------------------------------------------------------------
# raster oracle (rectilinear polygons from unit-cell sets; no geometry at all)
# ---------------------------------------------------------------------------------------
def cells_box(cells, box):
    """closed union of closed unit cells [cx,cx+1]x[cy,cy+1] meets the closed box."""
    x0, y0, x1, y1 = box
    for cx, cy in cells:
        if cx <= x1 and cx + 1 >= x0 and cy <= y1 and cy + 1 >= y0:
            return True
    return False


def cells_point(cells, p):
    """'in' (interior) / 'out' / 'bd' for a point with integer or half-integer coords."""
    import math
    x, y = p
    xs = [math.floor(x)] if x != math.floor(x) else [int(x) - 1, int(x)]
    ys = [math.floor(y)] if y != math.floor(y) else [int(y) - 1, int(y)]
    tot = inn = 0
    for cx in xs:
        for cy in ys:
            tot += 1
            inn += (cx, cy) in cells
    return "in" if inn == tot else ("out" if inn == 0 else "bd")


# ---------------------------------------------------------------------------------------
# measures
# ---------------------------------------------------------------------------------------
def ring_area2(flat):
    """Twice the signed shoelace area of a closed ring (exact)."""
    pts = pts_of(flat)
    s = 0
    for (ax, ay), (bx, by) in zip(pts, pts[1:]):
        s += ax * by - bx * ay
    return s


def is_closed(flat):
    return len(flat) >= 2 and flat[0] == flat[-2] and flat[1] == flat[-1]


def seg_len2_list(flat):
    pts = pts_of(flat)
    return [(bx - ax) ** 2 + (by - ay) ** 2 for (ax, ay), (bx, by) in zip(pts, pts[1:])]


def isqrt_exact(n):
    """(root, exact?) for a non-negative rational n."""
    import math
    n = Fr(n)
    a, b = n.numerator, n.denominator
    ra, rb = math.isqrt(a), math.isqrt(b)
    if ra * ra == a and rb * rb == b:
        return Fr(ra, rb), True
    return None, False


def length_ref(flat_lines):
    """Reference length of a list of lines.

    Returns (value, exact): exact Fraction when every segment length is rational, else a
    50-digit Decimal (as float for comparison with 1e-12 relative tolerance)."""
    from decimal import Decimal, getcontext
    getcontext().prec = 50
    exact = True
    tot_fr = Fr(0)
    tot_dec = Decimal(0)
    for flat in flat_lines:
        for l2 in seg_len2_list(flat):
            r, ok = isqrt_exact(l2)
            if ok:
                tot_fr += r
                tot_dec += Decimal(r.numerator) / Decimal(r.denominator)
            else:
                exact = False
                l2 = Fr(l2)
                tot_dec += (Decimal(l2.numerator) / Decimal(l2.denominator)).sqrt()
    if exact:
        return tot_fr, True
    return tot_dec, False


# ---------------------------------------------------------------------------------------
# validity of polygons (O(n^2), exact) - used by passive monitors and generators
# ---------------------------------------------------------------------------------------
def _orient(a, b, c):
    v = (b[0] - a[0]) * (c[1] - a[1]) - (b[1] - a[1]) * (c[0] - a[0])
    return (v > 0) - (v < 0)


def _segs_meet(a, b, c, d):
    """closed segments ab and cd share a point (exact)."""
    if (max(a[0], b[0]) < min(c[0], d[0]) or max(c[0], d[0]) < min(a[0], b[0]) or
            max(a[1], b[1]) < min(c[1], d[1]) or max(c[1], d[1]) < min(a[1], b[1])):
        return False
    o1, o2 = _orient(a, b, c), _orient(a, b, d)
    o3, o4 = _orient(c, d, a), _orient(c, d, b)
    if o1 == 0 and o2 == 0 and o3 == 0 and o4 == 0:
        return True          # collinear with overlapping bboxes
    return o1 != o2 and o3 != o4 or (o1 == 0 or o2 == 0 or o3 == 0 or o4 == 0) and (
        (o1 == 0 and point_on_seg(c, a, b)) or (o2 == 0 and point_on_seg(d, a, b)) or
        (o3 == 0 and point_on_seg(a, c, d)) or (o4 == 0 and point_on_seg(b, c, d)))


def ring_is_simple(flat):
    """Closed ring, >= 3 distinct vertices, edges meet only at shared endpoints of
    consecutive edges (repeated consecutive vertices and collinear runs are allowed)."""
    if not is_closed(flat):
        return False
    pts = pts_of(flat)
    # drop zero-length edges
    red = [pts[0]]
    for p in pts[1:]:
        if p != red[-1]:
            red.append(p)
    if len(red) < 4:
        return False
    edges = list(zip(red, red[1:]))
    n = len(edges)
    for i in range(n):
        for j in range(i + 1, n):
            a, b = edges[i]
            c, d = edges[j]
            adjacent = (j == i + 1) or (i == 0 and j == n - 1)
            if not adjacent:
                if _segs_meet(a, b, c, d):
                    return False
            else:
                # adjacent edges may share only the common vertex
                shared = b if j == i + 1 else a
                other1 = a if j == i + 1 else b
                other2 = d if j == i + 1 else c
                if point_on_seg(other1, c, d) and other1 != shared:
                    return False
                if point_on_seg(other2, a, b) and other2 != shared:
                    return False
    return ring_area2(flat) != 0


def is_valid_polygon(rings):
    """Shell simple; holes simple, strictly inside the shell, pairwise disjoint (not even
    touching), every hole wound opposite to the shell."""
    if not rings or any(len(r) < 8 for r in rings):
        return False
    if not all(ring_is_simple(r) for r in rings):
        return False
    shell, holes = rings[0], rings[1:]
    s = ring_area2(shell) > 0
    for h in holes:
        if (ring_area2(h) > 0) == s:
            return False
        for p in pts_of(h):
            if point_vs_rings(p, [shell]) != "in":
                return False
        # no hole edge may meet a shell edge
        for a, b in zip(pts_of(h), pts_of(h)[1:]):
            for c, d in zip(pts_of(shell), pts_of(shell)[1:]):
                if _segs_meet(a, b, c, d):
                    return False
    for i in range(len(holes)):
        for j in range(i + 1, len(holes)):
            hi, hj = holes[i], holes[j]
            for a, b in zip(pts_of(hi), pts_of(hi)[1:]):
                for c, d in zip(pts_of(hj), pts_of(hj)[1:]):
                    if _segs_meet(a, b, c, d):
                        return False
            if point_vs_rings(pts_of(hi)[0], [hj]) != "out":
                return False
            if point_vs_rings(pts_of(hj)[0], [hi]) != "out":
                return False
    return True


# ---------------------------------------------------------------------------------------
# bounds
# ---------------------------------------------------------------------------------------
def flat_coords(kind, el):
    """All coordinates of an element as a flat list [x, y, x, y, ...] (None -> None)."""
    if el is None:
        return None
    if kind in ("point", "multipoint", "line", "ring"):
        return list(el)
    if kind in ("multiline", "polygon"):
        return [v for part in el for v in part]
    if kind == "multipolygon":
        return [v for part in el for ring in part for v in ring]
    raise ValueError(kind)


def bounds_ref(kind, el):
    """(minx, miny, maxx, maxy) over finite coordinates; NaN where none (per axis)."""
    import math
    flat = flat_coords(kind, el)
    nan = float("nan")
    if not flat:
        return (nan, nan, nan, nan)
    xs = [v for v in flat[0::2] if v is not None and math.isfinite(v)]
    ys = [v for v in flat[1::2] if v is not None and math.isfinite(v)]
    x0, x1 = (min(xs), max(xs)) if xs else (nan, nan)
    y0, y1 = (min(ys), max(ys)) if ys else (nan, nan)
    return (x0, y0, x1, y1)
