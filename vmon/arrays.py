"""Helpers shared by the array-level properties: value-equal arrays of different
provenance (non-zero arrow offsets, chunk concatenation, take, pickle), subtype choice,
element hashing."""
import pickle

import numpy as np

from . import gen_geom as gg
from .ctx import stable_hash

FORMS = ["direct", "sliced", "concat", "take", "pickle", "chunked"]


def pick_subtypes(tier, seed, always=("float64",), n_quick=2):
    """Quick tier: float64 plus (n_quick-1) other subtypes rotating with the seed;
    thorough: all five."""
    if tier == "thorough":
        return list(gg.SUBTYPES)
    if n_quick >= 3 and "int16" not in always:
        always = tuple(always) + ("int16",)        # the narrowest subtype is where widths bite
    others = [s for s in gg.SUBTYPES if s not in always]
    out = list(always)
    for i in range(n_quick - len(always)):
        out.append(others[(seed + i) % len(others)])
    return out


def pad_element(kind, rng):
    return gg.rand_element(rng, kind, 3)


def build_form(kind, elements, subtype, form, rng):
    """Array with exactly *elements* as values, obtained through *form*."""
    n = len(elements)
    if form == "direct" or n == 0:
        return gg.make_array(kind, elements, subtype)
    if form == "sliced":
        # non-zero arrow offsets, including multiples of 8 (byte-aligned validity bitmaps)
        k1, k2 = int(rng.choice([1, 2, 3, 5, 8, 16])), int(rng.integers(1, 3))
        pad1 = [pad_element(kind, rng) for _ in range(k1)]
        pad2 = [pad_element(kind, rng) for _ in range(k2)]
        if rng.random() < 0.5:
            pad1[int(rng.integers(k1))] = None
        big = gg.make_array(kind, pad1 + list(elements) + pad2, subtype)
        return big[k1:k1 + n]
    if form == "concat":
        m = int(rng.integers(0, n + 1))
        a = gg.make_array(kind, elements[:m], subtype)
        b = gg.make_array(kind, elements[m:], subtype)
        cls = gg.array_class(kind)
        return cls._concat_same_type([a, b])
    if form == "take":
        perm = rng.permutation(n)
        inv = np.argsort(perm)
        src = gg.make_array(kind, [elements[i] for i in perm], subtype)
        return src.take(inv)
    if form == "chunked":
        # what a parquet read with several row groups hands to the constructor: a ChunkedArray
        import pyarrow as pa
        m = int(rng.integers(0, n + 1))
        k1 = int(rng.choice([0, 1, 3]))
        pad1 = [pad_element(kind, rng) for _ in range(k1)]
        big = gg.make_array(kind, pad1 + list(elements), subtype)
        data = big.data
        chunks = [data[k1:k1 + m], data[k1 + m:]]
        cls = gg.array_class(kind)
        return cls(pa.chunked_array(chunks, type=data.type), dtype=big.dtype if kind != "point" else subtype)
    if form == "pickle":
        k1 = int(rng.choice([0, 1, 2, 8]))
        pad1 = [pad_element(kind, rng) for _ in range(k1)]
        if k1 and rng.random() < 0.5:
            pad1[int(rng.integers(k1))] = None
        big = gg.make_array(kind, pad1 + list(elements), subtype)
        return pickle.loads(pickle.dumps(big[k1:]))
    raise ValueError(form)


def element_hash(kind, subtype, el):
    return stable_hash([kind, subtype, el])


def mix_hash(h, arr):
    """Combine one element hash with an int64 (m, k) array of per-case integers."""
    arr = np.asarray(arr, dtype=np.int64)
    out = np.full(arr.shape[0], np.int64(h))
    mult = np.int64(-7046029254386353131)       # 0x9E3779B97F4A7C15 as signed
    with np.errstate(over="ignore"):
        for c in range(arr.shape[1]):
            out = (out ^ arr[:, c]) * mult
            out ^= (out >> 29)
    return out


def in_domain(kind, elements, subtype):
    """Coordinates within the exactness domain of *subtype*?"""
    lim = gg.MAG[subtype]
    for el in elements:
        for v in gg.coords_of(kind, el):
            if abs(v) > lim:
                return False
    return True


def fit_transform(rng, kind, elements, subtype, extent):
    """Random exact stretch (s = 2**k, integer shift) that keeps the transformed data
    (original coordinates in [-1, extent+1]) inside the subtype's exactness domain.
    Returns (s, tx, ty)."""
    lim = gg.MAG[subtype]
    if subtype == "float32":
        # float32 kernels evaluate products in float32: keep every product < 2**24
        lim = 2 ** 10
    kmax = 0
    while (extent + 2) * (2 ** (kmax + 1)) <= lim // 2:
        kmax += 1
    k = int(rng.integers(0, kmax + 1)) if rng.random() < 0.6 else 0
    s = 2 ** k
    room = lim - (extent + 2) * s
    if room > 0 and rng.random() < 0.6:
        tx = int(rng.integers(-room // 2, room // 2 + 1))
        ty = int(rng.integers(-room // 2, room // 2 + 1))
    else:
        tx = ty = 0
    if subtype == "float32":
        tx = ty = 0 if rng.random() < 0.5 else int(rng.integers(-8, 9))
    return s, tx, ty


def hostile_points(elements, subtype, rng=None, fill=None):
    """PointArray with the given elements whose null slots hold arbitrary (non-zero)
    coordinates instead of zero bytes: what take(..., allow_fill) / parquet / IPC may
    legitimately hand the library."""
    import pyarrow as pa
    from spatialpandas.geometry import PointArray
    n = len(elements)
    vals = np.zeros((n, 2), dtype=subtype)
    valid = np.ones(n, dtype=bool)
    for i, e in enumerate(elements):
        if e is None:
            valid[i] = False
            if fill is not None:
                vals[i] = fill
            elif rng is not None:
                vals[i] = rng.integers(-50, 51, size=2)
            else:
                vals[i] = (7, -3)
        else:
            vals[i] = e
    if n == 0:
        return PointArray(vals)
    bitmap = np.packbits(valid, bitorder="little")
    width = vals.dtype.itemsize * 2
    arr = pa.Array.from_buffers(pa.binary(width), n,
                                [pa.py_buffer(bitmap.tobytes()),
                                 pa.py_buffer(np.ascontiguousarray(vals).tobytes())])
    return PointArray(arr, dtype=subtype)


def all_forms(kind, elements, subtype, rng, hostile=True):
    """[(form name, array)] of value-equal arrays of different provenance."""
    out = []
    for f in FORMS:
        out.append((f, build_form(kind, elements, subtype, f, rng)))
    if kind == "point" and hostile and any(e is None for e in elements):
        out.append(("hostile-null-slots", hostile_points(elements, subtype, rng)))
    return out
