"""Per-shard monitoring context: counters, situation signatures, samples, violations.

Monitor state is guarded by one re-entrant lock, so monitors may fire from dask worker
threads.  Conditions record and return; the verdict is computed after the workload.
"""
import hashlib
import json
import threading
import time
import traceback
from collections import Counter

import numpy as np

MAX_VIOL_PER_KEY = 6        # full witnesses kept per (clause, mech) key
MAX_SAMPLES = 6


def _jsonable(o):
    import fractions
    if isinstance(o, (str, bool, type(None))):
        return o
    if isinstance(o, (int,)):
        return int(o)
    if isinstance(o, float):
        if o != o:
            return "nan"
        if o in (float("inf"), float("-inf")):
            return "inf" if o > 0 else "-inf"
        return o
    if isinstance(o, fractions.Fraction):
        return float(o) if o.denominator != 1 else int(o)
    if isinstance(o, np.generic):
        return _jsonable(o.item())
    if isinstance(o, np.ndarray):
        return [_jsonable(v) for v in o.tolist()]
    if isinstance(o, dict):
        return {str(k): _jsonable(v) for k, v in o.items()}
    if isinstance(o, (list, tuple, set, frozenset)):
        return [_jsonable(v) for v in o]
    if isinstance(o, bytes):
        return o.hex()
    return repr(o)


def stable_hash(obj):
    """64-bit stable hash of a json-able description (independent of PYTHONHASHSEED)."""
    s = json.dumps(_jsonable(obj), sort_keys=True, separators=(",", ":"))
    return int.from_bytes(hashlib.blake2b(s.encode(), digest_size=8).digest(), "little",
                          signed=True)


class Ctx:
    def __init__(self, prop, tier, seed, shard_name, shard_index, build, params=None):
        self.prop = prop
        self.tier = tier
        self.seed = int(seed)
        self.shard_name = shard_name
        self.shard_index = shard_index
        self.build = build
        self.params = params or {}
        ss = np.random.SeedSequence([self.seed, shard_index, int(prop[1:])])
        self.rng = np.random.default_rng(ss)
        self.lock = threading.RLock()
        self.counters = Counter()
        self.sigs = Counter()              # situation signature -> evaluations
        self.nontrivial = set()            # stable hashes of distinct non-trivial cases
        self.hash_arrays = []              # numpy int64 arrays of more such hashes
        self.samples = []
        self.violations = []               # full witnesses (capped per key)
        self.viol_counts = Counter()       # (clause, mech) -> total count
        self.required = {}                 # required situation class -> seen?
        self.notes = []
        self.extra = {}
        self.t0 = time.time()

    # -- recording ----------------------------------------------------------------
    def count(self, name, n=1):
        with self.lock:
            self.counters[name] += n

    def sig(self, *signature, n=1):
        with self.lock:
            self.sigs["|".join(str(s) for s in signature)] += n

    def case(self, descr, nontrivial=True):
        """Register one explored case; *descr* is any json-able description of it."""
        with self.lock:
            self.counters["evaluations"] += 1
            if nontrivial:
                self.nontrivial.add(stable_hash(descr))

    def case_hash(self, h, nontrivial=True, n_eval=1):
        with self.lock:
            self.counters["evaluations"] += n_eval
            if nontrivial:
                self.nontrivial.add(int(h))

    def case_hashes(self, arr, n_eval=None):
        """Register many cases at once: *arr* = int64 hashes of the non-trivial ones,
        n_eval = number of evaluations they were drawn from."""
        arr = np.asarray(arr, dtype=np.int64).ravel()
        with self.lock:
            self.counters["evaluations"] += int(len(arr) if n_eval is None else n_eval)
            if len(arr):
                self.hash_arrays.append(np.unique(arr))
                if len(self.hash_arrays) > 64:
                    self.hash_arrays = [np.unique(np.concatenate(self.hash_arrays))]

    def all_hashes(self):
        with self.lock:
            parts = list(self.hash_arrays)
            if self.nontrivial:
                parts.append(np.fromiter(self.nontrivial, dtype=np.int64,
                                         count=len(self.nontrivial)))
            if not parts:
                return np.zeros(0, dtype=np.int64)
            return np.unique(np.concatenate(parts))

    def sample(self, descr, force=False):
        with self.lock:
            if len(self.samples) < MAX_SAMPLES or force:
                self.samples.append(_jsonable(descr))

    def require(self, name, seen=False):
        with self.lock:
            self.required[name] = self.required.get(name, False) or bool(seen)

    def note(self, msg):
        with self.lock:
            if len(self.notes) < 50:
                self.notes.append(str(msg))

    def violation(self, clause, mech, witness, expected=None, observed=None, case=None,
                  msg=None):
        """Record a violation.

        clause : which clause of the property statement failed (short slug)
        mech   : mechanism slug used by the known-findings classifier
                 (operation, kind, which inert rows were present, which branch ...)
        witness: json-able concrete input
        case   : json-able *replayable* case description (module-specific)
        """
        with self.lock:
            key = (clause, mech)
            self.viol_counts[key] += 1
            if self.viol_counts[key] <= MAX_VIOL_PER_KEY:
                self.violations.append(_jsonable({
                    "property": self.prop, "clause": clause, "mech": mech,
                    "witness": witness, "expected": expected, "observed": observed,
                    "case": case, "msg": msg, "build": self.build,
                    "shard": self.shard_name, "seed": self.seed,
                }))

    # -- guarded execution of real code -------------------------------------------
    def guarded(self, fn, *a, **k):
        """Run *fn*; returns (ok, value_or_exception, tb_text)."""
        try:
            return True, fn(*a, **k), None
        except Exception as e:  # noqa: BLE001 - monitors must see everything
            return False, e, traceback.format_exc()

    def result(self):
        with self.lock:
            return {
                "prop": self.prop, "tier": self.tier, "seed": self.seed,
                "shard": self.shard_name, "build": self.build,
                "counters": dict(self.counters),
                "sigs": dict(self.sigs),
                "n_nontrivial": int(len(self.all_hashes())),
                "samples": self.samples,
                "violations": self.violations,
                "viol_counts": [[k[0], k[1], v] for k, v in self.viol_counts.items()],
                "required": self.required,
                "notes": self.notes,
                "extra": _jsonable(self.extra),
                "wall_s": time.time() - self.t0,
            }


def exc_in_repo(tb_text):
    """True if the traceback passes through the repository's package (the failure is
    raised by / below the code under observation, not by the harness alone)."""
    return "spatialpandas/" in (tb_text or "")


def short_exc(e):
    s = f"{type(e).__name__}: {e}"
    return s[:300]


def scribble(x, _depth=0):
    """Overwrite, in place, every writable numpy array reachable from a result the library
    handed out - what a caller may legitimately do with it.  Returns the number of arrays
    written.  (Later answers of the object that produced the result must not change.)"""
    import numpy as np
    n = 0
    if _depth > 4 or x is None:
        return 0
    if isinstance(x, np.ndarray):
        if x.flags.writeable and x.size:
            try:
                if x.dtype.kind == "b":
                    x[...] = ~x
                elif x.dtype.kind == "f":
                    x[...] = -72513.25
                elif x.dtype.kind in "iu":
                    x[...] = 3
                else:
                    return 0
            except (ValueError, TypeError):
                return 0
            return 1
        return 0
    if isinstance(x, (tuple, list)):
        return sum(scribble(v, _depth + 1) for v in x)
    if isinstance(x, dict):
        return sum(scribble(v, _depth + 1) for v in x.values())
    return n
