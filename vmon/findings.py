"""Known-findings plumbing.

known_findings.json is committed and never written at run time.  An entry is
  {"property": "C13", "key": "...", "status": "known"|"fixed", "what": "...",
   "match": {"clause": <regex>, "mech": <regex>}, "commit": "..."}
A violation is matched by *mechanism* (clause + mechanism slug computed by the check from
the witness: operation, kind, which inert rows were present, which branch), never by a
case hash or random values.  Only status == "known" entries suppress anything.
"""
import json
import os
import re

from . import VERIF_DIR

PATH = os.path.join(VERIF_DIR, "known_findings.json")


def load():
    try:
        data = json.load(open(PATH))
    except OSError:
        return {}
    out = {}
    for e in data.get("findings", []):
        if e.get("status") == "known":
            out[e["key"]] = e
    return out


def classify(v, known):
    for key, e in known.items():
        if e["property"] != v["property"]:
            continue
        m = e.get("match", {})
        if not re.fullmatch(m.get("clause", ".*"), v.get("clause") or ""):
            continue
        if not re.fullmatch(m.get("mech", ".*"), v.get("mech") or ""):
            continue
        return key
    return None
