"""Independent pure-Python big-int implementation of Skilling's Hilbert transform.

Shares nothing with the implementation's uint8 bit packing or int64 arithmetic."""


def d2c(p, n, h):
    """distance -> coordinates (list of n ints)."""
    bits = [(h >> (p * n - 1 - i)) & 1 for i in range(p * n)]
    x = [0] * n
    for i in range(n):
        v = 0
        for b in bits[i::n]:
            v = (v << 1) | b
        x[i] = v
    Z = 2 << (p - 1)
    t = x[n - 1] >> 1
    for i in range(n - 1, 0, -1):
        x[i] ^= x[i - 1]
    x[0] ^= t
    Q = 2
    while Q != Z:
        P = Q - 1
        for i in range(n - 1, -1, -1):
            if x[i] & Q:
                x[0] ^= P
            else:
                t = (x[0] ^ x[i]) & P
                x[0] ^= t
                x[i] ^= t
        Q <<= 1
    return x


def c2d(p, coord):
    """coordinates -> distance."""
    n = len(coord)
    x = [int(v) for v in coord]
    M = 1 << (p - 1)
    Q = M
    while Q > 1:
        P = Q - 1
        for i in range(n):
            if x[i] & Q:
                x[0] ^= P
            else:
                t = (x[0] ^ x[i]) & P
                x[0] ^= t
                x[i] ^= t
        Q >>= 1
    for i in range(1, n):
        x[i] ^= x[i - 1]
    t = 0
    Q = M
    while Q > 1:
        if x[n - 1] & Q:
            t ^= Q - 1
        Q >>= 1
    for i in range(n):
        x[i] ^= t
    h = 0
    for b in range(p - 1, -1, -1):
        for i in range(n):
            h = (h << 1) | ((x[i] >> b) & 1)
    return h
