"""pandas extension-array conformance suite re-instantiated for the five array types the
repository never tests (fixtures modelled on its Line / Point fixtures).  Test outcomes are
NOT verdict-bearing (17 conformance tests already fail in the pinned baseline for Line/Point);
the suite is only a workload for the in-situ monitors of vmon/contracts.py."""
import os

import pytest

from spatialpandas.geometry import (MultiLineArray, MultiLineDtype, MultiPointArray, MultiPointDtype,
                                    MultiPolygonArray, MultiPolygonDtype, PolygonArray, PolygonDtype,
                                    RingArray, RingDtype)
from spatialpandas.tests.test_listextensionarray import *  # noqa: F401,F403 - test classes + fixtures

KIND = os.environ.get("VMON_CONF_KIND", "polygon")
SUB = os.environ.get("VMON_CONF_SUBTYPE", "float64")

_R1 = [0, 0, 1, 0, 1, 1, 0, 0]
_R2 = [0, 0, 2, 0, 2, 2, 0, 0]
_H2 = [0.5, 0.5, 0.5, 1, 1, 1, 0.5, 0.5] if SUB.startswith("float") else [1, 1, 1, 1, 1, 1, 1, 1]
_R3 = [5, 5, 6, 5, 6, 6, 5, 5]
SPEC = {
    "polygon": (PolygonArray, PolygonDtype, [_R1], [_R2, _H2], [_R3], []),
    "multipolygon": (MultiPolygonArray, MultiPolygonDtype, [[_R1]], [[_R2, _H2], [_R3]], [[_R3]], []),
    "multiline": (MultiLineArray, MultiLineDtype, [[0, 0, 1, 1]], [[0, 0, 2, 2], [3, 3, 4, 4, 5, 5]], [[5, 5, 6, 6]], []),
    "multipoint": (MultiPointArray, MultiPointDtype, [0, 0], [1, 1, 2, 2], [5, 5], []),
    "ring": (RingArray, RingDtype, _R1, _R2, _R3, []),
}
CLS, DT, A, B, C, E = SPEC[KIND]


@pytest.fixture
def dtype():
    return DT(subtype=SUB)


@pytest.fixture
def data():
    return CLS([A, B, None, C, E] * 20, dtype=SUB)


@pytest.fixture
def data_missing():
    return CLS([None, B], dtype=SUB)


@pytest.fixture
def data_for_sorting():
    return CLS([B, C, A], dtype=SUB)


@pytest.fixture
def data_missing_for_sorting():
    return CLS([B, None, A], dtype=SUB)


@pytest.fixture
def data_for_grouping():
    return CLS([B, B, None, None, A, A, B, C], dtype=SUB)
