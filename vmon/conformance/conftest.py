# makes this directory a rootdir-independent test location
