"""Shard worker: runs one shard of one property's workload in a fresh interpreter.

    python -m vmon.worker --prop C01 --tier quick --seed 0 --index 3 --spec '<json>' --out f.json

The build (J = production JIT, B = NUMBA_BOUNDSCHECK=1 bounds-sanitizer build, I =
NUMBA_DISABLE_JIT=1 interpreter build for coverage only) is selected by the environment
the runner prepared; the worker only records it.
"""
import argparse
import faulthandler
import importlib
import json
import os
import shutil
import sys
import tempfile
import traceback


def main():
    ap = argparse.ArgumentParser()
    ap.add_argument("--prop", required=True)
    ap.add_argument("--tier", required=True)
    ap.add_argument("--seed", type=int, default=0)
    ap.add_argument("--index", type=int, default=0)
    ap.add_argument("--spec", required=True)
    ap.add_argument("--out", required=True)
    ap.add_argument("--replay", default=None)
    a = ap.parse_args()

    faulthandler.enable()
    repo = os.environ.get("VERIF_REPO", "/repo")
    # the working tree under observation shadows the editable install
    sys.path.insert(0, repo)
    verif = os.path.dirname(os.path.dirname(os.path.abspath(__file__)))
    if verif not in sys.path:
        sys.path.insert(1, verif)
    deps = os.path.join(verif, ".deps")
    if os.path.isdir(deps):
        sys.path.append(deps)

    from vmon.ctx import Ctx
    spec = json.loads(a.spec)
    ctx = Ctx(a.prop, a.tier, a.seed, spec["name"], a.index, spec.get("build", "J"),
              spec.get("params", {}))
    scratch_root = os.environ.get("VERIF_SCRATCH") or tempfile.gettempdir()
    ctx.scratch = tempfile.mkdtemp(prefix=f"vmon-{a.prop}-", dir=scratch_root)
    status = "ok"
    err = None
    try:
        import spatialpandas
        got = os.path.realpath(os.path.dirname(os.path.dirname(spatialpandas.__file__)))
        if got != os.path.realpath(repo):
            raise RuntimeError(f"spatialpandas imported from {got}, expected {repo}")
        mod = importlib.import_module(f"vmon.props.{a.prop.lower()}")
        if getattr(mod, "USE_CONTRACTS", False):
            from vmon import contracts
            contracts.install(ctx)
        if a.replay:
            case = json.load(open(a.replay))
            mod.replay(ctx, case)
        else:
            mod.run(ctx, spec)
    except BaseException:  # noqa: BLE001
        status = "harness-error"
        err = traceback.format_exc()
    finally:
        shutil.rmtree(ctx.scratch, ignore_errors=True)
    res = ctx.result()
    res["status"] = status
    res["error"] = err
    import numpy as np
    hfile = a.out + ".hashes.npy"
    np.save(hfile, ctx.all_hashes())
    res["hashes_file"] = hfile
    with open(a.out, "w") as f:
        json.dump(res, f)
    sys.stdout.flush()
    os._exit(0 if status == "ok" else 3)


if __name__ == "__main__":
    main()
