"""Offline install of icontract into the git-ignored /verif/.deps (flock-protected).

/verif/.deps is appended to sys.path (never shadows /venv's packages)."""
import fcntl
import os
import subprocess
import sys

from . import PYTHON, VERIF_DIR

DEPS = os.path.join(VERIF_DIR, ".deps")
WHEELS = "/opt/veriftools/wheels"


def ensure():
    marker = os.path.join(DEPS, ".ok")
    if os.path.exists(marker):
        return DEPS
    os.makedirs(DEPS, exist_ok=True)
    with open(os.path.join(VERIF_DIR, ".deps.lock"), "w") as lk:
        fcntl.flock(lk, fcntl.LOCK_EX)
        if not os.path.exists(marker):
            env = dict(os.environ, PIP_NO_INDEX="1", PIP_DISABLE_PIP_VERSION_CHECK="1")
            subprocess.run(
                [PYTHON, "-m", "pip", "install", "--quiet", "--no-index", "--find-links",
                 WHEELS, "--target", DEPS, "icontract", "jsonschema"],
                check=True, env=env, stdout=subprocess.DEVNULL)
            open(marker, "w").write("ok\n")
    return DEPS


if __name__ == "__main__":
    print(ensure())
