"""Recording / fault-injecting / delay-injecting fsspec filesystem, passed to the library
through its public ``filesystem=`` argument, plus dataset snapshot helpers.

Every *outermost* call on the filesystem object is one event (a thread-local depth counter
makes exists -> info a single operation; pyarrow's FSSpecHandler calls count too).  Events
carry {k, thread, op, paths, t_call, t_return, outcome}.  The monitor's own state is guarded by
one lock and updated at the client boundary (before the call / after the reply)."""
import json
import os
import random
import threading
import time

from fsspec.implementations.local import LocalFileSystem

OPS = ["ls", "makedirs", "mkdir", "rm", "rm_file", "rmdir", "mv", "move", "exists", "isdir",
       "isfile", "info", "open", "cp_file", "cat_file", "find", "glob", "expand_path", "walk",
       "touch", "created", "modified", "size", "lexists"]
MUTATORS = {"makedirs", "mkdir", "rm", "rm_file", "rmdir", "mv", "move", "open", "cp_file", "touch"}


class _HalfWrittenFile:
    """File object that accepts writes, keeps only the first half of them and raises
    OSError on close: the OSError fault kind at the point where the write really fails."""

    def __init__(self, f, owner, k):
        self._f, self._owner, self._k = f, owner, k
        self._buf = []

    def write(self, b):
        self._buf.append(bytes(b))
        return len(b)

    def __getattr__(self, name):
        return getattr(self._f, name)

    def __enter__(self):
        return self

    def __exit__(self, *a):
        self.close()

    def flush(self):
        pass

    def tell(self):
        return sum(len(b) for b in self._buf)

    @property
    def closed(self):
        return self._f.closed

    def close(self):
        if self._f.closed:
            return
        data = b"".join(self._buf)
        self._f.write(data[:max(1, len(data) // 2)])
        self._f.close()
        raise OSError(f"injected #{self._k}: write failed while closing (half-written file)")


class _SlowCloseFile:
    """Write handle whose close() is delayed: widens the window between "data handed to the
    file" and "file closed" - where tasks sharing state by mistake step on each other."""

    def __init__(self, f, delay):
        self._f, self._delay = f, delay

    def __getattr__(self, name):
        return getattr(self._f, name)

    def __enter__(self):
        return self

    def __exit__(self, *a):
        self.close()

    def close(self):
        if not self._f.closed:
            time.sleep(self._delay)
            self._f.close()


class MonFS(LocalFileSystem):
    """LocalFileSystem that records, delays and injects faults."""
    cachable = False

    def __init__(self, faults=None, delay_seed=None, delay_p=0.0, delay_max=0.004, stale_from=None,
                 stale_count=0):
        super().__init__()
        # stale window: from outermost call number stale_from on, the next stale_count
        # listing-type calls (ls, find) answer with the directory as of before the latest
        # mutation below it (newest entry not yet visible)
        self.stale_from, self.stale_left = stale_from, stale_count
        # which recently created entry a stale listing lacks: "newest" = the one created by the
        # latest mutation, "last-name" = the recently created entry that sorts last
        self.stale_mode = "newest"
        # listing_order="creation": ls / find answer in the order the entries were created
        # (legal: the order of a listing is unspecified; object stores and tmpfs behave like this)
        self.listing_order = None
        self.birth = {}
        # faults: {k: kind} with kind in OSError / FileNotFoundError / 'half' / 'stale' /
        #         'exists-flip' (reported-only kind)
        self.faults = dict(faults or {})
        self.n = 0
        self.armed = True
        self.tl = threading.local()
        self.mon_lock = threading.Lock()
        self.events = []
        self.rng = random.Random(delay_seed) if delay_seed is not None else None
        self.delay_p, self.delay_max = delay_p, delay_max
        self.fired = []
        self.last_listing = {}       # dir -> listing before the latest mutation below it
        self.prev_state = {}

    # ------------------------------------------------------------------------------------
    def _paths(self, a, k):
        out = []
        for v in list(a[:2]):
            if isinstance(v, str):
                out.append(v)
            elif isinstance(v, (list, tuple)) and v and isinstance(v[0], str):
                out.extend(v[:4])
        return out

    def _creation_sorted(self, result):
        def key(x):
            n_ = x["name"] if isinstance(x, dict) else str(x)
            return self.birth.get(n_.rstrip("/"), 0)
        if isinstance(result, dict):
            return {k_: result[k_] for k_ in sorted(result, key=lambda z: self.birth.get(str(z).rstrip("/"), 0))}
        if isinstance(result, list):
            return sorted(result, key=key)
        return result

    def _stale_view(self, name, d, result):
        """The listing of *d* without its most recently created entry (None if unknown)."""
        d = d.rstrip("/")
        prev = self.prev_state.get(d)
        if prev is None:
            return None
        try:
            now = sorted(os.listdir(d))
        except OSError:
            return None
        newest = [x for x in now if x not in prev]
        if self.stale_mode == "last-name":
            recent = [x for x in now if os.path.join(d, x) in self.birth]
            newest = sorted(recent)[-1:] if recent else newest
        if not newest:
            return None
        hide = {os.path.join(d, x) for x in newest}

        def hidden(p_):
            p_ = str(p_)
            return any(p_ == h or p_.startswith(h + "/") for h in hide)
        if isinstance(result, dict):
            return {k_: v for k_, v in result.items() if not hidden(k_)}
        if isinstance(result, list):
            out = []
            for x in result:
                name_ = x["name"] if isinstance(x, dict) else x
                if not hidden(name_):
                    out.append(x)
            return out
        return None

    def _remember_listing(self, op, paths):
        """Before a mutating call, remember the listing of the parents (for 'stale')."""
        for p in paths:
            d = os.path.dirname(p.rstrip("/"))
            try:
                self.prev_state[d] = sorted(os.listdir(d))
            except OSError:
                self.prev_state[d] = None


def _wrap(name):
    orig = getattr(LocalFileSystem, name)

    def w(self, *a, **kw):
        depth = getattr(self.tl, "d", 0)
        if depth or not self.armed:
            self.tl.d = depth + 1
            try:
                return orig(self, *a, **kw)
            finally:
                self.tl.d = depth
        paths = self._paths(a, kw)
        mode = a[1] if (name == "open" and len(a) > 1) else kw.get("mode", "rb")
        with self.mon_lock:
            self.n += 1
            k = self.n
            ev = {"k": k, "thread": threading.get_ident(), "op": name, "paths": paths,
                  "mode": mode if name == "open" else None, "t_call": time.monotonic(),
                  "t_return": None, "outcome": None}
            self.events.append(ev)
            fault = self.faults.get(k)
            sleep = 0.0
            if self.rng is not None and self.rng.random() < self.delay_p:
                sleep = self.rng.random() * self.delay_max
        if sleep:
            time.sleep(sleep)
        if name in MUTATORS and not (name == "open" and "r" in str(mode) and "+" not in str(mode)):
            self._remember_listing(name, paths)
        self.tl.d = 1
        try:
            if fault is not None:
                self.fired.append((k, name, paths[:1], fault if isinstance(fault, str) else fault.__name__))
                if fault in (OSError, FileNotFoundError):
                    raise fault(f"injected #{k} in {name}({paths[:1]})")
                if fault == "half":
                    if name == "open" and "w" in str(mode):
                        f = orig(self, *a, **kw)
                        ev["outcome"] = "half-written"
                        return _HalfWrittenFile(f, self, k)
                    raise OSError(f"injected #{k} in {name}({paths[:1]})")
                if fault == "stale":
                    if name == "ls":
                        d = paths[0].rstrip("/") if paths else None
                        prev = self.prev_state.get(d)
                        cur = orig(self, *a, **kw)
                        if prev is not None and isinstance(cur, list) and cur and isinstance(cur[0], str):
                            stale = [os.path.join(d, x) for x in prev]
                            ev["outcome"] = "stale-listing"
                            return stale
                        if isinstance(cur, list) and cur and not kw.get("detail"):
                            ev["outcome"] = "stale-listing"
                            return cur[:-1]
                        return cur
                    raise OSError(f"injected #{k} in {name}({paths[:1]})")
                if fault == "exists-flip":
                    if name in ("exists", "isfile", "isdir", "lexists"):
                        ev["outcome"] = "flipped"
                        return not orig(self, *a, **kw)
                    raise OSError(f"injected #{k} in {name}({paths[:1]})")
            r = orig(self, *a, **kw)
            if (name in ("ls", "find") and self.stale_from is not None and k >= self.stale_from
                    and self.stale_left > 0 and paths):
                r2 = self._stale_view(name, paths[0], r)
                if r2 is not None:
                    with self.mon_lock:
                        self.stale_left -= 1
                        self.fired.append((k, name, paths[:1], "stale-window"))
                    ev["outcome"] = "stale-listing"
                    return r2
            ev["outcome"] = ev["outcome"] or "ok"
            if name in ("open", "makedirs", "mkdir", "touch") and paths and not (name == "open" and "w" not in str(mode)):
                with self.mon_lock:
                    self.birth.setdefault(paths[0].rstrip("/"), k)
            if name in ("mv", "move") and len(paths) >= 2:
                with self.mon_lock:
                    self.birth[paths[1].rstrip("/")] = k
            if self.listing_order == "creation" and name in ("ls", "find"):
                r = self._creation_sorted(r)
            if name == "open" and "w" in str(mode) and self.rng is not None and self.delay_p > 0:
                with self.mon_lock:
                    d_ = self.rng.random() * self.delay_max * 8 if self.rng.random() < 0.7 else 0.0
                if d_:
                    return _SlowCloseFile(r, d_)
            return r
        except BaseException as e:
            ev["outcome"] = f"raised:{type(e).__name__}"
            raise
        finally:
            self.tl.d = 0
            ev["t_return"] = time.monotonic()
    w.__name__ = name
    return w


for _nm in OPS:
    if hasattr(LocalFileSystem, _nm):
        setattr(MonFS, _nm, _wrap(_nm))


# ---------------------------------------------------------------------------------------------
# event-log checkers
# ---------------------------------------------------------------------------------------------
def thread_order_string(events):
    ids = {}
    return "".join(chr(65 + min(25, ids.setdefault(e["thread"], len(ids)))) for e in events)


def created_removed(events):
    """(created, removed) path sets from the log (conservation check input)."""
    created, removed, moved = set(), set(), []
    for e in events:
        if not str(e["outcome"]).startswith(("ok", "half")):
            continue
        op, ps = e["op"], e["paths"]
        if op in ("makedirs", "mkdir", "touch") and ps:
            created.add(ps[0].rstrip("/"))
        elif op == "open" and e["mode"] and "w" in str(e["mode"]) and ps:
            created.add(ps[0])
        elif op in ("rm", "rm_file", "rmdir") and ps:
            removed.add(ps[0].rstrip("/"))
        elif op in ("mv", "move") and len(ps) >= 2:
            moved.append((ps[0].rstrip("/"), ps[1].rstrip("/")))
    return created, removed, moved


def scan_tree(root):
    """{relative path: 'dir' | 'file'} of everything under root."""
    out = {}
    for r, ds, fs in os.walk(root):
        for d in ds:
            out[os.path.relpath(os.path.join(r, d), root) + "/"] = "dir"
        for f in fs:
            out[os.path.relpath(os.path.join(r, f), root)] = "file"
    return out


def dataset_snapshot(path, id_col="rid"):
    """Independent (pyarrow-only) reading of a packed / written dataset directory."""
    import pyarrow.parquet as pq
    snap = {"listing": {}, "parts": {}, "spatial": None, "metadata_row_groups": None,
            "metadata_detail": None}
    if not os.path.isdir(path):
        snap["listing"] = None
        return snap
    for name in sorted(os.listdir(path)):
        full = os.path.join(path, name)
        snap["listing"][name] = "dir" if os.path.isdir(full) else "file"
        if os.path.isfile(full) and name.startswith("part."):
            try:
                t = pq.read_table(full).to_pandas()
                ids = t[id_col].tolist() if id_col in t.columns else None
                snap["parts"][name] = {"ids": ids, "index": [_c(v) for v in t.index.tolist()],
                                       "index_name": t.index.name, "columns": list(t.columns)}
            except Exception as e:  # noqa: BLE001
                snap["parts"][name] = {"unreadable": f"{type(e).__name__}: {e}"[:200]}
        elif name == "_common_metadata" and os.path.isfile(full):
            try:
                md = pq.read_metadata(full).metadata or {}
                sp = md.get(b"spatialpandas")
                snap["spatial"] = json.loads(sp.decode()) if sp else None
            except Exception as e:  # noqa: BLE001
                snap["spatial"] = {"unreadable": f"{type(e).__name__}"}
        elif name == "_metadata" and os.path.isfile(full):
            try:
                md_ = pq.read_metadata(full)
                snap["metadata_row_groups"] = md_.num_row_groups
                snap["metadata_detail"] = [[md_.row_group(i).num_rows, md_.row_group(i).column(0).file_path]
                                           for i in range(md_.num_row_groups)]
            except Exception as e:  # noqa: BLE001
                snap["metadata_row_groups"] = f"unreadable:{type(e).__name__}"
    return snap


def _c(v):
    try:
        import numpy as np
        if isinstance(v, np.generic):
            return v.item()
    except Exception:  # noqa: BLE001
        pass
    return v
