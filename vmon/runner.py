"""Orchestrator: shards a property's workload over fresh interpreters (J / B / I builds),
merges what the monitors observed, classifies violations against known_findings.json,
writes evidence/<id>.json and replay files, and turns it into the three-valued verdict.

exit 0  held on everything observed (KNOWN-FINDING lines allowed)
exit 1  violated: one "VIOLATION property=<id> replay=<path>" line per unlisted mechanism
exit 2  inconclusive (deciding monitor never reached, required situation class missing,
        shard watchdog fired or harness error) - never folded into the other two
"""
import concurrent.futures as cf
import hashlib
import importlib
import json
import os
import shutil
import subprocess
import sys
import tempfile
import time
from collections import Counter

import numpy as np

from . import GUARD, PYTHON, VERIF_DIR
from . import deps as _deps
from . import findings as _findings

MAX_PROCS = int(os.environ.get("VERIF_PROCS", "16"))


def _env_for(build, spec):
    env = dict(os.environ)
    env["PYTHONHASHSEED"] = "0"
    env[GUARD] = "1"
    env["PYTHONDONTWRITEBYTECODE"] = "1"
    env["PYTHONPATH"] = VERIF_DIR
    env.setdefault("VERIF_REPO", "/repo")
    env.pop("NUMBA_BOUNDSCHECK", None)
    env.pop("NUMBA_DISABLE_JIT", None)
    if build == "B":
        env["NUMBA_BOUNDSCHECK"] = "1"
    elif build == "I":
        env["NUMBA_DISABLE_JIT"] = "1"
    for k, v in (spec.get("env") or {}).items():
        env[k] = str(v)
    # keep numba from oversubscribing when many shards run at once
    env.setdefault("NUMBA_NUM_THREADS", str(spec.get("numba_threads", 2)))
    env.setdefault("OMP_NUM_THREADS", env["NUMBA_NUM_THREADS"])
    return env


def _run_shard(prop, tier, seed, index, spec, outdir, replay=None):
    out = os.path.join(outdir, f"shard{index}.json")
    cmd = [PYTHON, "-X", "faulthandler", "-m", "vmon.worker", "--prop", prop, "--tier", tier,
           "--seed", str(seed), "--index", str(index), "--spec", json.dumps(spec),
           "--out", out]
    if replay:
        cmd += ["--replay", replay]
    prefix = spec.get("prefix")            # e.g. strace wrapper
    if prefix:
        cmd = list(prefix) + cmd
    timeout = spec.get("timeout", 1500 if tier == "quick" else 7200)
    t0 = time.time()
    try:
        p = subprocess.run(cmd, env=_env_for(spec.get("build", "J"), spec), cwd=VERIF_DIR,
                           stdout=subprocess.PIPE, stderr=subprocess.STDOUT, timeout=timeout)
        rc, log = p.returncode, p.stdout.decode(errors="replace")
    except subprocess.TimeoutExpired as e:
        rc, log = "timeout", (e.stdout or b"").decode(errors="replace")
    wall = time.time() - t0
    res = None
    if os.path.exists(out):
        try:
            res = json.load(open(out))
        except Exception:  # noqa: BLE001
            res = None
    return {"spec": spec, "rc": rc, "log": log[-6000:], "wall": wall, "res": res}


def _schema_check(evidence):
    try:
        import jsonschema
    except ImportError:
        return None
    try:
        schema = json.load(open("/root/.vp/EVIDENCE.schema.json"))
    except OSError:
        return None
    try:
        jsonschema.validate(evidence, schema)
        return None
    except jsonschema.ValidationError as e:
        return str(e)[:500]


def main(prop, tier, seed=0, replay=None):
    t0 = time.time()
    prop = prop.upper()
    d = _deps.ensure()
    if d not in sys.path:
        sys.path.append(d)
    mod = importlib.import_module(f"vmon.props.{prop.lower()}")
    if replay:
        specs = [{"name": "replay", "build": b, "params": {}} for b in ("J", "B")]
    else:
        specs = mod.shards(tier, seed)
        if tier == "thorough" and getattr(mod, "SPLIT_KINDS", False):
            # one shard per geometry kind: same total work, more of the 16 cores used
            split = []
            for sp in specs:
                kinds = (sp.get("params") or {}).get("kinds")
                if isinstance(kinds, list) and len(kinds) > 1 and not sp.get("prefix"):
                    for k in kinds:
                        split.append({**sp, "name": f"{k}-{sp.get('build', 'J')}" + ("-conf" if sp["params"].get("conformance") else ""),
                                      "params": {**sp["params"], "kinds": [k]}})
                else:
                    split.append(sp)
            specs = split
    outdir = tempfile.mkdtemp(prefix=f"vrun-{prop}-")
    results = []
    try:
        with cf.ThreadPoolExecutor(max_workers=MAX_PROCS) as ex:
            futs = [ex.submit(_run_shard, prop, tier, seed, i, s, outdir, replay)
                    for i, s in enumerate(specs)]
            for f in futs:
                results.append(f.result())
        verdict = _merge_and_report(prop, tier, seed, mod, results, time.time() - t0,
                                    replay=replay)
    finally:
        shutil.rmtree(outdir, ignore_errors=True)
    return verdict


def _merge_and_report(prop, tier, seed, mod, results, wall, replay=None):
    counters, sigs = Counter(), Counter()
    per_build = {}
    hashes = []
    samples, violations, notes, viol_counts = [], [], [], Counter()
    required = {}
    extra = {}
    inconclusive = []
    shard_info = []
    for r in results:
        spec, res = r["spec"], r["res"]
        name = spec["name"]
        shard_info.append({"name": name, "build": spec.get("build", "J"), "rc": r["rc"],
                           "wall_s": round(r["wall"], 1)})
        if r["rc"] == "timeout":
            inconclusive.append(f"shard {name}: watchdog fired after {r['wall']:.0f}s")
            continue
        if res is None or res.get("status") != "ok":
            err = (res or {}).get("error") or r["log"]
            inconclusive.append(f"shard {name}: harness error rc={r['rc']}: {err[-1500:]}")
            if res is None:
                continue
        b = spec.get("build", "J")
        if b == "I":
            # interpreter build: coverage information only, never verdict-bearing
            extra.setdefault("I_build", {})[name] = res.get("extra", {})
            continue
        counters.update(res["counters"])
        sigs.update(res["sigs"])
        pb = per_build.setdefault(b, Counter())
        pb["evaluations"] += res["counters"].get("evaluations", 0)
        pb["shards"] += 1
        try:
            hashes.append(np.load(res["hashes_file"]))
        except Exception:  # noqa: BLE001
            pass
        for s in res["samples"]:
            if len(samples) < 6:
                samples.append(s)
        violations.extend(res["violations"])
        for c, m, n in res["viol_counts"]:
            viol_counts[(c, m)] += n
        for k, v in res["required"].items():
            required[k] = required.get(k, False) or v
        notes.extend(res["notes"])
        for k, v in (res.get("extra") or {}).items():
            if isinstance(v, (int, float)) and not isinstance(v, bool):
                extra[k] = extra.get(k, 0) + v
            elif isinstance(v, list):
                extra.setdefault(k, [])
                extra[k] = (extra[k] + v)[:40]
            elif isinstance(v, dict):
                d = extra.setdefault(k, {})
                for kk, vv in v.items():
                    if isinstance(vv, (int, float)) and not isinstance(vv, bool):
                        d[kk] = d.get(kk, 0) + vv
                    else:
                        d.setdefault(kk, vv)
            else:
                extra.setdefault(k, v)
    distinct = int(len(np.unique(np.concatenate(hashes)))) if hashes else 0
    evaluations = int(counters.get("evaluations", 0))

    # ---- classify violations ----------------------------------------------------
    known = _findings.load()
    unlisted = {}
    known_hit = {}
    for v in violations:
        key = _findings.classify(v, known)
        if key is not None:
            known_hit.setdefault(key, v)
        else:
            unlisted.setdefault((v["clause"], v["mech"]), v)
    lines = []
    for key, v in known_hit.items():
        entry = known[key]
        lines.append(f"KNOWN-FINDING: property={prop} {entry['what']} [{key}]")
    replay_paths = []
    if not replay:
        rdir = os.path.join(VERIF_DIR, "replays", prop)
        for k_, ((clause, mech), v) in enumerate(unlisted.items()):
            if k_ >= 25:
                lines.append(f"  ... and {len(unlisted) - 25} more unlisted mechanism(s), see "
                             f"evidence/{prop}.json")
                break
            os.makedirs(rdir, exist_ok=True)
            body = json.dumps(v, sort_keys=True, indent=1)
            h = hashlib.sha1(body.encode()).hexdigest()[:12]
            path = os.path.join(rdir, f"{h}.json")
            with open(path, "w") as f:
                f.write(body)
            replay_paths.append(path)
            lines.append(f"VIOLATION property={prop} replay={path}")
            lines.append(f"  clause={clause} mech={mech} count={viol_counts[(clause, mech)]} "
                         f"expected={json.dumps(v.get('expected'))[:200]} "
                         f"observed={json.dumps(v.get('observed'))[:200]}")
    else:
        for (clause, mech), v in unlisted.items():
            lines.append(f"VIOLATION property={prop} replay={replay}")
            lines.append(f"  clause={clause} mech={mech} "
                         f"expected={json.dumps(v.get('expected'))[:200]} "
                         f"observed={json.dumps(v.get('observed'))[:200]}")

    # ---- inconclusive? ---------------------------------------------------------------
    if not replay:
        if evaluations == 0:
            inconclusive.append("deciding monitor was never evaluated")
        for k, seen in required.items():
            if not seen:
                inconclusive.append(f"required situation class never produced: {k}")
        deciding = getattr(mod, "DECIDING_COUNTERS", [])
        for c in deciding:
            if counters.get(c, 0) == 0:
                inconclusive.append(f"deciding monitor '{c}' observed zero events")

    # ---- evidence ----------------------------------------------------------------------
    if not replay:
        level = getattr(mod, "LEVEL", "exploration")
        top = sorted(sigs.items(), key=lambda kv: -kv[1])
        evidence = {
            "property_id": prop, "tier": tier, "seed": int(seed), "level": level,
            "coverage": {
                "evaluations": evaluations,
                "distinct_nontrivial": distinct,
                "rule": getattr(mod, "RULE", ""),
                "samples": samples if samples else [],
                "exhaustive": bool(getattr(mod, "EXHAUSTIVE", {}).get(tier, False)),
                "distinct_signatures": len(sigs),
                "signature_histogram_top": dict(top[:60]),
                "counters": {k: int(v) for k, v in sorted(counters.items())},
                "per_build": {b: dict(c) for b, c in per_build.items()},
                "required_situations": required,
                "shards": shard_info,
                "known_findings_hit": sorted(known_hit),
                "unlisted_violation_mechanisms": [f"{c}:{m}" for c, m in unlisted],
                "inconclusive_reasons": inconclusive,
                "notes": notes[:40],
                **({"extra": extra} if extra else {}),
            },
            "assumptions": list(getattr(mod, "ASSUMPTIONS", [])),
            "wall_s": round(wall, 2),
            "violations": int(sum(viol_counts.values())),
        }
        err = _schema_check(evidence)
        if err:
            inconclusive.append("evidence failed schema validation: " + err)
        # evidence/ describes /repo itself; runs against another tree (mutation runs with
        # VERIF_REPO=<scratch>) must not overwrite it
        other = os.path.realpath(os.environ.get("VERIF_REPO", "/repo")) != os.path.realpath("/repo")
        evdir = os.path.join(VERIF_DIR, ".evidence-other" if other else "evidence")
        os.makedirs(evdir, exist_ok=True)
        with open(os.path.join(evdir, f"{prop}.json"), "w") as f:
            json.dump(evidence, f, indent=1, sort_keys=True)

    # ---- report ---------------------------------------------------------------------------
    print(f"[{prop}] tier={tier} seed={seed} shards={len(results)} evaluations={evaluations} "
          f"distinct_nontrivial={distinct} signatures={len(sigs)} wall={wall:.0f}s")
    for k in sorted(counters):
        if k != "evaluations":
            print(f"    {k}={counters[k]}")
    for ln in lines:
        print(ln)
    if unlisted:
        print(f"[{prop}] VERDICT: violated ({len(unlisted)} unlisted mechanism(s))")
        return 1
    if inconclusive:
        for r in inconclusive:
            print(f"INCONCLUSIVE property={prop} reason={r}")
        print(f"[{prop}] VERDICT: inconclusive")
        return 2
    print(f"[{prop}] VERDICT: held on what was observed"
          + (f" ({len(known_hit)} known finding(s))" if known_hit else ""))
    return 0
