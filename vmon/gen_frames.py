"""Frame generators and row-multiset models for the container / Dask / parquet properties.

Every generated frame carries a row-id column whose values are unique per frame (drawn
from a per-frame 40-bit offset) - this keeps dask tokens of value-equal frames distinct -
and a checksum column tied to the geometry value, so a permuted or misaligned column is
visible in any result."""
import numpy as np
import pandas as pd

from . import gen_geom as gg
from .ctx import stable_hash

INDEX_KINDS = ["default", "named", "string", "nonunique", "shuffled-int", "sorted-ties"]

_uid_counter = [0]


def new_uid(rng):
    _uid_counter[0] += 1
    return (int(rng.integers(1, 2 ** 20)) << 20) + (_uid_counter[0] << 8)


def geom_checksum(kind, el):
    return stable_hash([kind, el]) % (2 ** 31)


def make_index(rng, n, kind):
    if kind == "default":
        return pd.RangeIndex(n)
    if kind == "named":
        return pd.Index(np.arange(n) * 3 + 5, name="myidx")
    if kind == "string":
        return pd.Index([f"row{chr(97 + (i * 7) % 26)}{i}" for i in range(n)])
    if kind == "nonunique":
        return pd.Index(rng.integers(0, max(1, n // 2), n), name="dup")
    if kind == "shuffled-int":
        return pd.Index(rng.permutation(n) + 100)
    if kind == "sorted-ties":
        # unnamed, sorted, with ties balanced by gaps: 0,0,2,3,3,5,... (first, last and length are those
        # of a plain range, the labels are not)
        return pd.Index([3 * (i // 3) + (0, 0, 2)[i % 3] for i in range(n)])
    raise ValueError(kind)


def frame_spec(rng, cols, n, index_kind="default", extra=True):
    """Replayable frame description.

    cols: list of (name, kind, subtype, elements)"""
    uid = new_uid(rng)
    spec = {"uid": uid, "n": n, "index_kind": index_kind, "index_seed": int(rng.integers(2 ** 31)),
            "cols": [{"name": c[0], "kind": c[1], "subtype": c[2], "elements": c[3]} for c in cols],
            "extra": bool(extra)}
    return spec


def build_frame(spec):
    from spatialpandas import GeoDataFrame
    n = spec["n"]
    rng = np.random.default_rng(spec["index_seed"])
    data = {}
    data["rid"] = np.arange(n, dtype=np.int64) + spec["uid"]
    for c in spec["cols"]:
        data[c["name"]] = gg.make_array(c["kind"], c["elements"], c["subtype"])
    first = spec["cols"][0]
    data["chk"] = np.array([geom_checksum(first["kind"], e) for e in
                            gg.pylist(data[first["name"]])], dtype=np.int64)
    if spec.get("extra", True):
        data["val"] = (np.arange(n) * 1.5 - 2.0)
        data["txt"] = np.array([f"t{i % 5}" for i in range(n)], dtype=object)
    for name in spec.get("reserved_named_columns") or []:
        # a user column that happens to carry the name of one of the library's helper columns
        data[name] = np.arange(n, dtype=np.int64) * 7 + 1
    order = spec.get("col_order")
    if order:
        data = {k: data[k] for k in order}
    df = GeoDataFrame(data, index=make_index(rng, n, spec["index_kind"]),
                      **({"geometry": spec["geometry"]} if spec.get("geometry") else {}))
    return df


def frame_records(df, geom_cols=None):
    """Row-wise canonical records [(index label, {col: value})] with geometry columns read
    back through to_pylist (independent of the implementation's buffers)."""
    from spatialpandas.geometry import GeometryDtype
    cols = {}
    for c in df.columns:
        s = df[c]
        if isinstance(s.dtype, GeometryDtype):
            cols[c] = [_canon(v) for v in gg.pylist(s.array)]
        else:
            cols[c] = [_canon(v) for v in s.tolist()]
    idx = [_canon(v) for v in df.index.tolist()]
    return [(idx[i], {c: cols[c][i] for c in cols}) for i in range(len(df))]


def _canon(v):
    if v is None:
        return None
    if isinstance(v, float):
        if v != v:
            return "NaN"
        return v
    if isinstance(v, (np.floating,)):
        return _canon(float(v))
    if isinstance(v, (np.integer,)):
        return int(v)
    if isinstance(v, (list, tuple)):
        return tuple(_canon(x) for x in v)
    if v is pd.NA or v is pd.NaT:
        return "NaN"
    return v


def records_key(rec):
    return stable_hash([rec[0], sorted((k, _listify(v)) for k, v in rec[1].items())])


def _listify(v):
    if isinstance(v, tuple):
        return [_listify(x) for x in v]
    return v


def multiset(records):
    from collections import Counter
    return Counter(records_key(r) for r in records)
