"""pytest plugin: attach the in-situ monitors (vmon/contracts.py) for a whole pytest session
and dump what they observed to $VMON_PLUGIN_OUT.  Used to run the repository's own suite and
the pandas conformance suite as *workloads*; test outcomes are not verdict-bearing."""
import json
import os

_ctx = None


def pytest_configure(config):
    global _ctx
    os.environ.setdefault("SPATIALPANDAS_VERIF", "1")
    from vmon import contracts
    from vmon.ctx import Ctx
    _ctx = Ctx("C16", "quick", 0, "pytest-plugin", 0, "J")
    contracts.install(_ctx)


def pytest_sessionfinish(session, exitstatus):
    out = os.environ.get("VMON_PLUGIN_OUT")
    if out and _ctx is not None:
        with open(out, "w") as f:
            json.dump(_ctx.result(), f)
