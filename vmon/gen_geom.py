"""Hostile-by-construction generators of shapes, boxes and arrays.

Elements are plain Python structures in the library's own nested-list layout:
  point [x,y] | multipoint/line/ring [x,y,x,y,..] | multiline/polygon [[..],[..]] |
  multipolygon [[[..],[..]], [[..]]]           (None = missing, [] / [[]] = empty)
All coordinates produced here are Python ints (exactness domain); callers may apply an
exact affine stretch.
"""
import itertools
import math

import numpy as np

from . import oracle_geom as og

KINDS = ["point", "multipoint", "line", "ring", "multiline", "polygon", "multipolygon"]
SUBTYPES = ["float64", "float32", "int64", "int32", "int16"]
# magnitude bound of the exactness domain per subtype (see DESIGN.md section 2)
MAG = {"float64": 2 ** 25, "int64": 2 ** 25, "int32": 2 ** 25, "int16": 2 ** 14,
       "float32": 2 ** 10}


def array_class(kind):
    from spatialpandas import geometry as g
    return {"point": g.PointArray, "multipoint": g.MultiPointArray, "line": g.LineArray,
            "ring": g.RingArray, "multiline": g.MultiLineArray, "polygon": g.PolygonArray,
            "multipolygon": g.MultiPolygonArray}[kind]


def scalar_class(kind):
    from spatialpandas import geometry as g
    return {"point": g.Point, "multipoint": g.MultiPoint, "line": g.Line,
            "ring": g.Ring, "multiline": g.MultiLine, "polygon": g.Polygon,
            "multipolygon": g.MultiPolygon}[kind]


def nesting(kind):
    return {"point": 0, "multipoint": 0, "line": 0, "ring": 0, "multiline": 1,
            "polygon": 1, "multipolygon": 2}[kind]


def make_array(kind, elements, subtype="float64"):
    """Build a geometry array of *kind* from python elements through the public
    constructor.  Points: None stays None, values become ndarray rows."""
    cls = array_class(kind)
    if kind == "point":
        if all(e is not None for e in elements) and len(elements) > 0:
            return cls(np.array(elements, dtype=subtype).reshape(len(elements), 2))
        els = [None if e is None else np.array(e, dtype=subtype) for e in elements]
        return cls(els, dtype=subtype)
    return cls(list(elements), dtype=subtype)


def pylist(arr):
    """Independent read-back of the element values (pyarrow to_pylist, never through
    buffer_values / offset arithmetic)."""
    kind_fixed = arr.data.type.__class__.__name__.startswith("FixedSizeBinary")
    if kind_fixed:
        dt = arr.numpy_dtype
        return [None if b is None else np.frombuffer(b, dtype=dt).tolist()
                for b in arr.data.to_pylist()]
    return arr.data.to_pylist()


# ---------------------------------------------------------------------------------------
# rectilinear polygons by boundary tracing of cell sets
# ---------------------------------------------------------------------------------------
def has_pinch(cells, G):
    for vx in range(G + 1):
        for vy in range(G + 1):
            a = (vx - 1, vy - 1) in cells
            b = (vx, vy - 1) in cells
            c = (vx - 1, vy) in cells
            d = (vx, vy) in cells
            if (a and d and not b and not c) or (b and c and not a and not d):
                return True
    return False


def gen_cells(rng, G, connected=True, fill=None):
    """Random cell set on a GxG grid without diagonal pinches."""
    for _ in range(1000):
        if connected:
            k = int(rng.integers(1, G * G))
            cells = {(int(rng.integers(G)), int(rng.integers(G)))}
            lst = list(cells)
            while len(cells) < k:
                x, y = lst[int(rng.integers(len(lst)))]
                dx, dy = [(1, 0), (-1, 0), (0, 1), (0, -1)][int(rng.integers(4))]
                n = (x + dx, y + dy)
                if 0 <= n[0] < G and 0 <= n[1] < G and n not in cells:
                    cells.add(n)
                    lst.append(n)
        else:
            f = fill if fill is not None else float(rng.uniform(0.25, 0.7))
            cells = {(x, y) for x in range(G) for y in range(G) if rng.random() < f}
            if not cells:
                continue
        if not has_pinch(cells, G):
            return cells
    return {(0, 0)}


def components(cells):
    cells = set(cells)
    out = []
    while cells:
        s = cells.pop()
        comp = {s}
        stack = [s]
        while stack:
            x, y = stack.pop()
            for n in ((x + 1, y), (x - 1, y), (x, y + 1), (x, y - 1)):
                if n in cells:
                    cells.remove(n)
                    comp.add(n)
                    stack.append(n)
        out.append(comp)
    out.sort(key=lambda c: sorted(c)[0])
    return out


def loops(cells):
    """Boundary loops of a pinch-free cell set; CCW shells, CW holes; every cell corner
    on the boundary is kept as a vertex; loops are closed (first == last)."""
    edges = set()
    for (x, y) in cells:
        for e in (((x, y), (x + 1, y)), ((x + 1, y), (x + 1, y + 1)),
                  ((x + 1, y + 1), (x, y + 1)), ((x, y + 1), (x, y))):
            r = (e[1], e[0])
            if r in edges:
                edges.remove(r)
            else:
                edges.add(e)
    nxt = {}
    for a, b in edges:
        assert a not in nxt
        nxt[a] = b
    out = []
    for s in sorted(nxt):
        if s not in nxt:
            continue
        loop = [s]
        cur = nxt.pop(s)
        while cur != s:
            loop.append(cur)
            cur = nxt.pop(cur)
        loop.append(s)
        out.append(loop)
    return out


def _area2(loop):
    return sum(loop[i][0] * loop[i + 1][1] - loop[i + 1][0] * loop[i][1]
               for i in range(len(loop) - 1))


def simplify(loop):
    pts = loop[:-1]
    n = len(pts)
    keep = []
    for i in range(n):
        p, q, r = pts[i - 1], pts[i], pts[(i + 1) % n]
        if (q[0] - p[0]) * (r[1] - q[1]) - (q[1] - p[1]) * (r[0] - q[0]) != 0:
            keep.append(q)
    return keep + [keep[0]]


def rotate(loop, k):
    pts = loop[:-1]
    k %= len(pts)
    pts = pts[k:] + pts[:k]
    return pts + [pts[0]]


def flat(loop):
    return [c for p in loop for c in p]


def component_rings(comp, rng=None, simplify_p=0.5, reverse=False, dup_p=0.0):
    """Rings (flat lists) of one 4-connected component: shell first, then holes."""
    ls = loops(comp)
    shell = [l for l in ls if _area2(l) > 0]
    holes = [l for l in ls if _area2(l) < 0]
    assert len(shell) == 1
    rings = [shell[0]] + holes
    out = []
    for r in rings:
        if rng is not None and rng.random() < simplify_p:
            r = simplify(r)
        if rng is not None:
            r = rotate(r, int(rng.integers(0, len(r) - 1)))
            if dup_p and rng.random() < dup_p:
                i = int(rng.integers(0, len(r) - 1))
                r = r[:i + 1] + [r[i]] + r[i + 1:]      # repeated vertex
        if reverse:
            r = r[::-1]
        out.append(flat(r))
    return out


def rect_polygon(rng, G, reverse=None, dup_p=0.2):
    """(rings, cells) of a random connected rectilinear polygon (valid, maybe holes)."""
    cells = gen_cells(rng, G, connected=True)
    if reverse is None:
        reverse = bool(rng.integers(2))
    return component_rings(cells, rng, reverse=reverse, dup_p=dup_p), cells


def rect_multipolygon(rng, G, dup_p=0.2):
    """(parts, cells): every 4-connected component is a part (nested parts arise as
    islands inside holes); occasionally one component is split into two *touching* parts
    along a vertical cut."""
    cells = gen_cells(rng, G, connected=False)
    parts = []
    for comp in components(cells):
        rev = bool(rng.integers(2))
        xs = sorted({c[0] for c in comp})
        if len(xs) > 1 and rng.random() < 0.25:
            cut = xs[int(rng.integers(1, len(xs)))]
            left = {c for c in comp if c[0] < cut}
            right = comp - left
            ok = True
            sub = []
            for half in (left, right):
                for cc in components(half):
                    if has_pinch(cc, G + 1):
                        ok = False
                    sub.append(cc)
            if ok:
                for cc in sub:
                    parts.append(component_rings(cc, rng, reverse=rev, dup_p=dup_p))
                continue
        parts.append(component_rings(comp, rng, reverse=rev, dup_p=dup_p))
    return parts, cells


# ---------------------------------------------------------------------------------------
# star-shaped integer polygons (oblique edges, rays through vertices)
# ---------------------------------------------------------------------------------------
def star_ring(rng, cx, cy, rmax, k):
    """Closed CCW ring star-shaped about (cx, cy), integer vertices, or None."""
    dirs = set()
    for _ in range(4 * k):
        dx, dy = int(rng.integers(-rmax, rmax + 1)), int(rng.integers(-rmax, rmax + 1))
        if dx == 0 and dy == 0:
            continue
        g = math.gcd(abs(dx), abs(dy))
        dirs.add((dx // g, dy // g))
        if len(dirs) >= k:
            break
    if len(dirs) < 3:
        return None
    dirs = sorted(dirs, key=lambda d: math.atan2(d[1], d[0]))
    pts = []
    for dx, dy in dirs:
        m = max(abs(dx), abs(dy))
        s = int(rng.integers(1, max(1, rmax // m) + 1))
        pts.append((cx + dx * s, cy + dy * s))
    ring = flat(pts + [pts[0]])
    # consecutive directions must turn by less than pi and strictly CCW
    n = len(dirs)
    for i in range(n):
        a, b = dirs[i], dirs[(i + 1) % n]
        if a[0] * b[1] - a[1] * b[0] <= 0:
            return None
    if not og.ring_is_simple(ring) or og.ring_area2(ring) <= 0:
        return None
    return ring


def star_polygon(rng, span=8, holes=(0, 1, 2)):
    """Valid polygon with oblique edges: star shell plus 0..2 small holes (by rejection
    with the exact validity checker)."""
    for _ in range(200):
        c = span
        shell = star_ring(rng, c, c, span, int(rng.integers(3, 9)))
        if shell is None:
            continue
        rings = [shell]
        nh = int(holes[int(rng.integers(len(holes)))])
        for _h in range(nh):
            for _try in range(30):
                hx = int(rng.integers(c - span + 1, c + span))
                hy = int(rng.integers(c - span + 1, c + span))
                if rng.random() < 0.5:
                    w, h = int(rng.integers(1, 3)), int(rng.integers(1, 3))
                    hole = flat([(hx, hy), (hx, hy + h), (hx + w, hy + h), (hx + w, hy),
                                 (hx, hy)])          # CW rectangle
                else:
                    r = star_ring(rng, hx, hy, 2, int(rng.integers(3, 6)))
                    if r is None:
                        continue
                    hole = flat(og.pts_of(r)[::-1])
                if og.is_valid_polygon(rings + [hole]):
                    rings.append(hole)
                    break
        if rng.random() < 0.5:
            rings = [flat(og.pts_of(r)[::-1]) for r in rings]
        if og.is_valid_polygon(rings):
            return rings
    return [flat([(0, 0), (2, 0), (1, 2), (0, 0)])]


# ---------------------------------------------------------------------------------------
# lines and point sets
# ---------------------------------------------------------------------------------------
def rand_line(rng, G, maxk=6, closed_p=0.15, oblique=True):
    k = int(rng.integers(1, maxk + 1))
    if oblique:
        pts = [(int(rng.integers(0, G + 1)), int(rng.integers(0, G + 1))) for _ in range(k)]
    else:
        x, y = int(rng.integers(0, G + 1)), int(rng.integers(0, G + 1))
        pts = [(x, y)]
        for _ in range(k - 1):
            if rng.random() < 0.5:
                x = int(rng.integers(0, G + 1))
            else:
                y = int(rng.integers(0, G + 1))
            pts.append((x, y))
    if k > 1 and rng.random() < 0.3:
        i = int(rng.integers(0, k - 1))
        pts[i + 1] = pts[i]                      # zero-length segment
    if k > 2 and rng.random() < closed_p:
        pts.append(pts[0])
    return flat(pts)


def rand_multipoint(rng, G, maxk=5):
    k = int(rng.integers(1, maxk + 1))
    return flat([(int(rng.integers(0, G + 1)), int(rng.integers(0, G + 1)))
                 for _ in range(k)])


def rand_element(rng, kind, G):
    """One non-missing, non-empty element of *kind* with integer coordinates in [0,G]
    (polygons may exceed G slightly for star shapes)."""
    if kind == "point":
        return [int(rng.integers(0, G + 1)), int(rng.integers(0, G + 1))]
    if kind == "multipoint":
        return rand_multipoint(rng, G)
    if kind == "line":
        return rand_line(rng, G, oblique=bool(rng.integers(2)))
    if kind == "ring":
        if rng.random() < 0.5:
            return rect_polygon(rng, G)[0][0]
        ln = rand_line(rng, G, maxk=5, closed_p=0.0)
        return ln + ln[:2]
    if kind == "multiline":
        return [rand_line(rng, G, oblique=bool(rng.integers(2)))
                for _ in range(int(rng.integers(1, 4)))]
    if kind == "polygon":
        if rng.random() < 0.6:
            return rect_polygon(rng, G)[0]
        return star_polygon(rng, span=max(3, G))
    if kind == "multipolygon":
        if rng.random() < 0.7:
            return rect_multipolygon(rng, G)[0]
        a = star_polygon(rng, span=max(3, G // 2 + 1))
        b = star_polygon(rng, span=max(3, G // 2 + 1))
        off = 4 * G + 8
        b = [[v + off if i % 2 == 0 else v for i, v in enumerate(r)] for r in b]
        return [a, b]
    raise ValueError(kind)


def empty_elements(kind):
    """Empty (non-missing, no finite coordinate) element forms of *kind*."""
    if kind == "point":
        return []               # fixed-width: only missing (or NaN coords for floats)
    if kind in ("multipoint", "line", "ring"):
        return [[]]
    if kind in ("multiline", "polygon"):
        return [[], [[]]]
    if kind == "multipolygon":
        return [[], [[]], [[[]]]]
    raise ValueError(kind)


def transform(el, kind, s, tx, ty):
    """Exact affine map v -> v*s + t of every coordinate."""
    if el is None:
        return None

    def f(flat_):
        return [v * s + (tx if i % 2 == 0 else ty) for i, v in enumerate(flat_)]
    n = nesting(kind)
    if n == 0:
        return f(el)
    if n == 1:
        return [f(p) for p in el]
    return [[f(r) for r in p] for p in el]


def coords_of(kind, el):
    return og.flat_coords(kind, el) or []


def half_grid(lo, hi):
    """Half-grid values lo, lo+.5, ..., hi as exact ints in doubled units."""
    return list(range(2 * lo, 2 * hi + 1))


def boxes_halfgrid(lo, hi, rng=None, limit=None, min_size=1):
    """All boxes with corners on the half grid [lo,hi] and positive width and height
    (doubled-integer units).  With *limit*, a seeded subsample."""
    vals = half_grid(lo, hi)
    pairs = np.array([(a, b) for a, b in itertools.combinations(vals, 2) if b - a >= min_size],
                     dtype=np.int64).reshape(-1, 2)
    npairs = len(pairs)
    if limit is not None and npairs * npairs > limit:
        # seeded sample of the complete sweep, drawn without materialising it
        flat_idx = np.unique(rng.integers(0, npairs * npairs, size=int(limit * 1.1)))[:limit]
        ix, iy = flat_idx // npairs, flat_idx % npairs
    else:
        ix, iy = np.divmod(np.arange(npairs * npairs), npairs)
    return np.stack([pairs[ix, 0], pairs[iy, 0], pairs[ix, 1], pairs[iy, 1]], axis=1)


def element_complexity(kind, el):
    c = coords_of(kind, el)
    return len(c) // 2


# ---------------------------------------------------------------------------------------
# unconstrained "soup" elements: any structure, any representable coordinate values
# (used where values are read, not computed with: bounds, selection laws, round trips)
# ---------------------------------------------------------------------------------------
def rand_coord(rng, subtype, special_p=0.1):
    dt = np.dtype(subtype)
    if dt.kind == "f":
        r = rng.random()
        if r < special_p:
            return [float("nan"), float("inf"), float("-inf")][int(rng.integers(3))]
        if r < 0.5:
            v = float(rng.integers(-20, 21))
        elif r < 0.8:
            v = float(rng.uniform(-1000, 1000))
        elif r < 0.9:
            v = float(rng.uniform(-1, 1) * 1e-30)
        else:
            v = float(rng.uniform(-1, 1) * 1e30)
        return float(np.array(v, dtype=dt))
    info = np.iinfo(dt)
    lim = min(info.max, 2 ** 50)
    r = rng.random()
    if r < 0.6:
        return int(rng.integers(-20, 21))
    if r < 0.9:
        return int(rng.integers(-min(lim, 10 ** 6), min(lim, 10 ** 6)))
    return int([lim, -lim, lim - 1][int(rng.integers(3))])


def rand_flat(rng, subtype, nmin=0, nmax=6, special_p=0.1):
    k = int(rng.integers(nmin, nmax + 1))
    return [rand_coord(rng, subtype, special_p) for _ in range(2 * k)]


def soup_element(rng, kind, subtype, special_p=0.1, empty_p=0.12, missing_p=0.12):
    """Any element of *kind*: missing, empty in any form, or arbitrary coordinates."""
    r = rng.random()
    if r < missing_p:
        return None
    if kind == "point":
        if np.dtype(subtype).kind == "f" and rng.random() < empty_p:
            return [float("nan"), float("nan")]
        return [rand_coord(rng, subtype, special_p), rand_coord(rng, subtype, special_p)]
    if r < missing_p + empty_p:
        forms = empty_elements(kind)
        return forms[int(rng.integers(len(forms)))]
    if kind in ("multipoint", "line", "ring"):
        return rand_flat(rng, subtype, 1, 6, special_p)
    if kind in ("multiline", "polygon"):
        return [rand_flat(rng, subtype, 0, 5, special_p) for _ in range(int(rng.integers(1, 4)))]
    if kind == "multipolygon":
        return [[rand_flat(rng, subtype, 0, 5, special_p) for _ in range(int(rng.integers(1, 3)))]
                for _ in range(int(rng.integers(1, 4)))]
    raise ValueError(kind)


def is_inert(kind, el):
    """Missing, or without any finite coordinate."""
    if el is None:
        return True
    return not any(v is not None and math.isfinite(v) for v in coords_of(kind, el))


def same_value(a, b):
    """Deep equality of element values with NaN == NaN."""
    if a is None or b is None:
        return a is None and b is None
    if isinstance(a, (list, tuple)):
        return (isinstance(b, (list, tuple)) and len(a) == len(b)
                and all(same_value(x, y) for x, y in zip(a, b)))
    if isinstance(a, float) and a != a:
        return isinstance(b, float) and b != b
    return a == b
