"""In-situ monitors: icontract postconditions attached, from the harness, to the *class
attributes* the whole library dispatches through.  Because the wrapper sits on the class it
observes in-situ calls too: cx calling intersects_bounds with the inds the R-tree produced,
sjoin calling sindex.intersects and PointArray.intersects(shape, inds=candidates), every Dask
partition calling all of them - argument distributions no hand-written workload constructs.

Design rules (DESIGN.md section 2):
 * conditions record and return True (a raising contract would be swallowed and retried by
   `retrying` inside pack_partitions_to_parquet and would alter the behaviour under observation);
 * a thread-local re-entrancy flag lets a monitor call the unwrapped function;
 * monitor state is guarded by one lock; shadow models are keyed by id() + weakref;
 * every monitor counts its evaluations: zero evaluations of a deciding monitor => inconclusive.

install(ctx) is a no-op unless SPATIALPANDAS_VERIF=1.
"""
import os
import threading
import weakref

import numpy as np

from . import GUARD
from . import gen_geom as gg
from . import oracle_geom as og

_tl = threading.local()
_state = {"ctx": None, "installed": False, "lock": threading.RLock(), "rtree_inputs": {},
          "sample_rng": np.random.default_rng(12345)}
MAX_ORACLE_ELEMS = 64


def _ctx():
    return _state["ctx"]


def _busy():
    return getattr(_tl, "busy", False)


class _reentrant:
    def __enter__(self):
        self.prev = getattr(_tl, "busy", False)
        _tl.busy = True

    def __exit__(self, *a):
        _tl.busy = self.prev


def _kind_of(arr):
    return type(arr).__name__.replace("Array", "").lower()


def _exact_domain(vals, kind):
    for el in vals:
        if el is None:
            continue
        for v in gg.coords_of(kind, el):
            if not (isinstance(v, (int, float)) and v == v and abs(v) <= 2 ** 25 and float(2 * v).is_integer()):
                return False
    return True


# ---- conditions (named functions, record and return True) ------------------------------------------
def intersects_bounds_post(self, bounds, inds, result):
    ctx = _ctx()
    if ctx is None or _busy():
        return True
    with _reentrant():
        try:
            kind = _kind_of(self)
            ctx.count(f"insitu:intersects_bounds:{kind}")
            res = np.asarray(result)
            n = len(self)
            if inds is not None:
                full = np.asarray(type(self).intersects_bounds.__wrapped__(self, bounds, None))
                want = full[np.asarray(inds).astype(np.int64)]
                if res.shape != want.shape or (res != want).any():
                    ctx.violation("in-situ", f"insitu:intersects_bounds:{kind}:inds-form-differs",
                                  {"kind": kind, "bounds": [float(b) for b in bounds],
                                   "inds": np.asarray(inds).tolist()[:40]},
                                  expected=want.tolist()[:40], observed=res.tolist()[:40])
                    return True
                sel = np.asarray(inds).astype(np.int64)
            else:
                sel = np.arange(n)
            if len(sel) == 0:
                return True
            x0, y0, x1, y1 = [float(b) for b in bounds]
            if not all(float(2 * b).is_integer() and abs(b) <= 2 ** 25 for b in (x0, y0, x1, y1)):
                return True
            degenerate = (x0 == x1 or y0 == y1)
            if degenerate and kind not in ("point", "multipoint"):
                return True
            pick = sel if len(sel) <= MAX_ORACLE_ELEMS else _state["sample_rng"].choice(sel, MAX_ORACLE_ELEMS)
            vals = gg.pylist(self)
            B = np.array([og.norm_box([int(2 * x0), int(2 * y0), int(2 * x1), int(2 * y1)])], dtype=np.int64)
            pos = {int(v): i for i, v in enumerate(sel.tolist())}
            for j in np.unique(pick):
                el = vals[int(j)]
                if not _exact_domain([el], kind):
                    continue
                if kind in ("polygon", "multipolygon") and el is not None:
                    parts = [el] if kind == "polygon" else el
                    if not all(og.is_valid_polygon(p_) for p_ in parts if p_):
                        continue
                el2 = _double(kind, el)
                exp = bool(og.element_box_many(kind, el2, B)[0])
                got = bool(res[pos[int(j)]])
                ctx.count("insitu:intersects_bounds:oracle")
                if got != exp:
                    ctx.violation("in-situ", f"insitu:intersects_bounds:{kind}:truth",
                                  {"kind": kind, "element": el, "bounds": [x0, y0, x1, y1]},
                                  expected=exp, observed=got)
                    break
        except Exception as e:  # noqa: BLE001 - a monitor must never disturb the run
            ctx.note(f"monitor intersects_bounds_post failed: {type(e).__name__}: {e}")
    return True


def _double(kind, el):
    if el is None:
        return None
    f = lambda fl: [int(round(2 * v)) for v in fl]          # noqa: E731
    n = gg.nesting(kind)
    if n == 0:
        return f(el)
    if n == 1:
        return [f(p) for p in el]
    return [[f(r) for r in p] for p in el]


def point_intersects_post(self, shape, inds, result):
    ctx = _ctx()
    if ctx is None or _busy():
        return True
    with _reentrant():
        try:
            ctx.count("insitu:point-intersects")
            res = np.asarray(result)
            missing = np.asarray(self.isna())
            if inds is not None:
                idx = np.asarray(inds).astype(np.int64)
                full = np.asarray(type(self).intersects.__wrapped__(self, shape, None))
                want = full[idx]
                if res.shape != want.shape or (res != want).any():
                    ctx.violation("in-situ", "insitu:point-intersects:inds-form-differs",
                                  {"shape": repr(shape)[:200], "inds": idx.tolist()[:40]},
                                  expected=want.tolist()[:40], observed=res.tolist()[:40])
                missing = missing[idx]
            if res.shape == missing.shape and (res & missing).any():
                ctx.violation("in-situ", "insitu:point-intersects:missing-point-true",
                              {"shape": repr(shape)[:200]}, expected=False, observed=True)
        except Exception as e:  # noqa: BLE001
            ctx.note(f"monitor point_intersects_post failed: {type(e).__name__}: {e}")
    return True


def rtree_init_post(self, bounds):
    ctx = _ctx()
    if ctx is None:
        return True
    try:
        with _state["lock"]:
            b = np.array(bounds, dtype=float, copy=True)
            key = id(self)
            _state["rtree_inputs"][key] = b
            weakref.finalize(self, _state["rtree_inputs"].pop, key, None)
    except Exception:  # noqa: BLE001
        pass
    return True


def _rtree_brute(b, q):
    d = b.shape[1] // 2
    q = np.asarray(q, dtype=float)
    defined = ~np.isnan(b).any(axis=1)
    with np.errstate(invalid="ignore"):
        inter = np.all((b[:, d:] >= q[:d]) & (b[:, :d] <= q[d:]), axis=1) & defined
        cov = np.all((b[:, :d] >= q[:d]) & (b[:, d:] <= q[d:]), axis=1) & defined
    return inter, cov, defined


def rtree_intersects_post(self, bounds, result):
    ctx = _ctx()
    if ctx is None or _busy():
        return True
    try:
        b = _state["rtree_inputs"].get(id(self))
        q = [float(v) for v in bounds]
        if b is None or len(b) == 0 or any(v != v for v in q):
            return True
        ctx.count("insitu:rtree-intersects")
        inter, cov, defined = _rtree_brute(b, q)
        got = np.asarray(result).astype(np.int64)
        nanrows = set(np.nonzero(~defined)[0].tolist())
        g = sorted(v for v in got.tolist() if v not in nanrows)
        if g != np.nonzero(inter)[0].tolist() or len(set(got.tolist())) != len(got):
            ctx.violation("in-situ", "insitu:rtree:intersects-differs-from-brute-force",
                          {"n": int(len(b)), "query": q, "page_size": int(self._page_size)},
                          expected=np.nonzero(inter)[0].tolist()[:40], observed=g[:40])
    except Exception as e:  # noqa: BLE001
        ctx.note(f"monitor rtree_intersects_post failed: {type(e).__name__}: {e}")
    return True


def rtree_covers_overlaps_post(self, bounds, result):
    ctx = _ctx()
    if ctx is None or _busy():
        return True
    try:
        b = _state["rtree_inputs"].get(id(self))
        q = [float(v) for v in bounds]
        if b is None or len(b) == 0 or any(v != v for v in q):
            return True
        ctx.count("insitu:rtree-covers_overlaps")
        inter, cov, defined = _rtree_brute(b, q)
        c, o = (np.asarray(x).astype(np.int64) for x in result)
        nanrows = set(np.nonzero(~defined)[0].tolist())
        gc = sorted(c.tolist())
        go = sorted(v for v in o.tolist() if v not in nanrows)
        ec = np.nonzero(inter & cov)[0].tolist()
        eo = np.nonzero(inter & ~cov)[0].tolist()
        if gc != ec or go != eo:
            ctx.violation("in-situ", "insitu:rtree:covers_overlaps-differs-from-brute-force",
                          {"n": int(len(b)), "query": q, "page_size": int(self._page_size)},
                          expected=[ec[:30], eo[:30]], observed=[gc[:30], go[:30]])
    except Exception as e:  # noqa: BLE001
        ctx.note(f"monitor rtree_covers_overlaps_post failed: {type(e).__name__}: {e}")
    return True


def bounds_post(self, result):
    ctx = _ctx()
    if ctx is None or _busy():
        return True
    with _reentrant():
        try:
            kind = _kind_of(self)
            n = len(self)
            ctx.count("insitu:bounds")
            b = np.asarray(result)
            if b.shape != (n, 4):
                ctx.violation("in-situ", f"insitu:bounds:{kind}:shape", {"n": n}, expected=[n, 4],
                              observed=list(b.shape))
                return True
            if n == 0:
                return True
            vals = gg.pylist(self)
            pick = range(n) if n <= MAX_ORACLE_ELEMS else _state["sample_rng"].choice(n, MAX_ORACLE_ELEMS)
            for i in pick:
                e = og.bounds_ref(kind, vals[int(i)])
                r = b[int(i)]
                if not all((x != x and y != y) or float(x) == float(y) for x, y in zip(r, e)):
                    ctx.violation("in-situ", f"insitu:bounds:{kind}:row-differs",
                                  {"kind": kind, "element": vals[int(i)]}, expected=list(e), observed=r.tolist())
                    break
        except Exception as e:  # noqa: BLE001
            ctx.note(f"monitor bounds_post failed: {type(e).__name__}: {e}")
    return True


def total_bounds_post(self, result):
    ctx = _ctx()
    if ctx is None or _busy():
        return True
    with _reentrant():
        try:
            kind = _kind_of(self)
            if len(self) > 4096:
                return True
            ctx.count("insitu:total_bounds")
            from .props.c13 import total_ref
            e = total_ref(kind, gg.pylist(self))
            if not all((float(x) != float(x) and y != y) or float(x) == float(y) for x, y in zip(result, e)):
                ctx.violation("in-situ", f"insitu:total_bounds:{kind}", {"kind": kind, "n": len(self)},
                              expected=list(e), observed=[float(v) for v in result])
        except Exception as e:  # noqa: BLE001
            ctx.note(f"monitor total_bounds_post failed: {type(e).__name__}: {e}")
    return True


def getitem_post(self, item, result):
    """Selection laws over to_pylist for slices / masks / integer arrays / scalars."""
    ctx = _ctx()
    if ctx is None or _busy():
        return True
    with _reentrant():
        try:
            from numbers import Integral
            from spatialpandas.geometry.base import GeometryArray
            src = gg.pylist(self)
            kind = _kind_of(self)
            ctx.count("insitu:getitem")
            if isinstance(item, Integral):
                exp = src[int(item)]
                got = None if result is None else (result.flat_values.tolist() if kind == "point"
                                                   else result.data.as_py())
                if not gg.same_value(exp, got):
                    ctx.violation("in-situ", f"insitu:getitem:{kind}:scalar-differs", {"item": int(item)},
                                  expected=exp, observed=got)
                return True
            if not isinstance(result, GeometryArray):
                return True
            if isinstance(item, slice):
                exp = src[item]
            else:
                it = np.asarray(item)
                if it.dtype == bool:
                    exp = [e for e, k in zip(src, it.tolist()) if k]
                elif it.dtype.kind in "iu":
                    exp = [src[int(i)] for i in it.tolist()]
                else:
                    return True
            got = gg.pylist(result)
            if len(got) != len(exp) or not all(gg.same_value(a, b) for a, b in zip(got, exp)):
                ctx.violation("in-situ", f"insitu:getitem:{kind}:selection-differs",
                              {"item": repr(item)[:100], "n": len(src)}, expected=exp[:6], observed=got[:6])
        except Exception as e:  # noqa: BLE001
            ctx.note(f"monitor getitem_post failed: {type(e).__name__}: {e}")
    return True


def take_post(self, indices, allow_fill, result):
    ctx = _ctx()
    if ctx is None or _busy():
        return True
    with _reentrant():
        try:
            src = gg.pylist(self)
            ctx.count("insitu:take")
            idx = np.asarray(indices).astype(np.int64).tolist() if len(np.asarray(indices)) else []
            exp = [None if (allow_fill and i == -1) else src[i] for i in idx]
            got = gg.pylist(result)
            if len(got) != len(exp) or not all(gg.same_value(a, b) for a, b in zip(got, exp)):
                ctx.violation("in-situ", f"insitu:take:{_kind_of(self)}:selection-differs",
                              {"indices": idx[:40], "allow_fill": bool(allow_fill)}, expected=exp[:6],
                              observed=got[:6])
        except Exception as e:  # noqa: BLE001
            ctx.note(f"monitor take_post failed: {type(e).__name__}: {e}")
    return True


# ---- installation ---------------------------------------------------------------------------------------
def install(ctx):
    """Attach the monitors to the real classes (idempotent); bind them to *ctx*."""
    _state["ctx"] = ctx
    if os.environ.get(GUARD) != "1" or _state["installed"]:
        return False
    import icontract
    from spatialpandas.geometry import (LineArray, MultiLineArray, MultiPointArray, MultiPolygonArray,
                                        PointArray, PolygonArray)
    from spatialpandas.geometry.base import GeometryArray
    from spatialpandas.geometry.basefixed import GeometryFixedArray
    from spatialpandas.geometry.baselist import GeometryListArray
    from spatialpandas.spatialindex.rtree import HilbertRtree

    class MonitorBroken(Exception):
        pass

    def ens(cond):
        return icontract.ensure(cond, error=MonitorBroken)

    for cls in (PointArray, MultiPointArray, LineArray, MultiLineArray, PolygonArray, MultiPolygonArray):
        cls.intersects_bounds = ens(intersects_bounds_post)(cls.intersects_bounds)
    PointArray.intersects = ens(point_intersects_post)(PointArray.intersects)
    HilbertRtree.__init__ = ens(rtree_init_post)(HilbertRtree.__init__)
    HilbertRtree.intersects = ens(rtree_intersects_post)(HilbertRtree.intersects)
    HilbertRtree.covers_overlaps = ens(rtree_covers_overlaps_post)(HilbertRtree.covers_overlaps)
    for cls in (GeometryListArray, GeometryFixedArray):
        cls.bounds = property(ens(bounds_post)(cls.bounds.fget))
        cls.total_bounds = property(ens(total_bounds_post)(cls.total_bounds.fget))
    GeometryArray.__getitem__ = ens(getitem_post)(GeometryArray.__getitem__)
    GeometryArray.take = ens(take_post)(GeometryArray.take)
    _state["installed"] = True
    return True
