"""C17 - missing and empty geometries are inert.

Paired-execution monitor: every operation runs on an array / frame F and on F' = F plus
inert rows (missing, every empty form, all-NaN coordinates) at chosen positions (first,
last, a whole R-tree page, a whole Dask partition, everywhere); results are aligned
through the row positions / unique row ids.  The relation is metamorphic, so arbitrary
float coordinates are used."""
import numpy as np
import pandas as pd

from .. import arrays as A
from .. import gen_geom as gg
from ..ctx import exc_in_repo, short_exc

RULE = ("cases = (kind, subtype, base elements with arbitrary float coordinates, placement of inert "
        "rows {first, last, block of page_size rows, whole Dask partition, scattered, all rows}, "
        "inert form {missing, [], [[]], [[[]]], all-NaN}, operation); operations: bounds, "
        "total_bounds(_x/_y), length, area, intersects_bounds, point intersects, R-tree queries with "
        "page_size in {1,2,4,512}, cx with/without index on array and frame, sjoin (inert on either "
        "side), hilbert_distance, Dask cx / total_bounds / pack_partitions; one evaluation = one "
        "(case, operation) comparison; non-trivial = at least one inert and one non-inert row; "
        "distinct = hash of (kind, subtype, elements, placement, operation)")
ASSUMPTIONS = ["inert rows may be reported by the R-tree as uncovered candidates (consumers re-test)",
               "empty (non-missing) elements: length/area are not compared (only missing promises NaN)"]
USE_CONTRACTS = True      # in-situ icontract monitors (vmon/contracts.py)
SPLIT_KINDS = True         # thorough tier: one shard per geometry kind
DECIDING_COUNTERS = ["pairs_checked"]


def shards(tier, seed):
    subs = ["float64", ["float32", "int32", "int16", "int64"][seed % 4]]
    if tier == "thorough":
        subs = ["float64", "float32", "int32"]
    n = 40 if tier == "quick" else 500
    groups = [["point"], ["multipoint", "line"], ["ring", "multiline"], ["polygon", "multipolygon"]]
    out = []
    for kinds in groups:
        for b in ("J", "B"):
            out.append({"name": f"{'+'.join(kinds)}-{b}", "build": b,
                        "params": {"kinds": kinds, "subtypes": subs, "cases": n if b == "J" else n // 2,
                                   "dask_every": 8 if tier == "quick" else 12}})
    return out


def inert_forms(kind, subtype):
    fl = np.dtype(subtype).kind == "f"
    forms = [None] + gg.empty_elements(kind)
    nan = float("nan")
    if fl:
        if kind == "point":
            forms.append([nan, nan])
        elif kind in ("multipoint", "line", "ring"):
            forms.append([nan, nan, nan, nan])
        elif kind in ("multiline", "polygon"):
            forms.append([[nan, nan, nan, nan, nan, nan]])
        else:
            forms.append([[[nan, nan, nan, nan, nan, nan]]])
    return forms


def base_element(rng, kind, subtype):
    fl = np.dtype(subtype).kind == "f"
    if rng.random() < 0.5 or not fl:
        e = gg.rand_element(rng, kind, 8)
        return e
    e = gg.rand_element(rng, kind, 8)
    jit = lambda v: float(np.array(v + rng.uniform(-0.4, 0.4), dtype=subtype))      # noqa: E731
    n = gg.nesting(kind)
    if n == 0:
        out = [jit(v) for v in e]
        if kind == "ring":
            out[-2:] = out[:2]
        return out
    if n == 1:
        out = [[jit(v) for v in p] for p in e]
        if kind == "polygon":
            for p in out:
                p[-2:] = p[:2]
        return out
    out = [[[jit(v) for v in r] for r in p] for p in e]
    for p in out:
        for r in p:
            r[-2:] = r[:2]
    return out


def gen_case(rng, kind, subtype):
    n = int(rng.integers(1, 14))
    base = [base_element(rng, kind, subtype) for _ in range(n)]
    forms = inert_forms(kind, subtype)
    ps = int(rng.choice([1, 2, 4, 512]))
    mode = ["first", "last", "block", "scattered", "all", "partition"][int(rng.integers(6))]
    # positions in the *combined* array, as (insert-before-base-index, form) pairs
    ins = []
    pick = lambda: forms[int(rng.integers(len(forms)))]          # noqa: E731
    if mode == "first":
        ins = [(0, pick()) for _ in range(int(rng.integers(1, 3)))]
    elif mode == "last":
        ins = [(n, pick()) for _ in range(int(rng.integers(1, 3)))]
    elif mode == "block":
        at = int(rng.integers(0, n + 1))
        ins = [(at, pick()) for _ in range(max(ps if ps < 10 else 3, 1))]
    elif mode == "scattered":
        ins = sorted(((int(rng.integers(0, n + 1)), pick()) for _ in range(int(rng.integers(1, 6)))),
                     key=lambda t: t[0])
    elif mode == "all":
        base = []
        ins = [(0, pick()) for _ in range(int(rng.integers(1, 6)))]
    else:
        at = int(rng.integers(0, n + 1))
        ins = [(at, pick()) for _ in range(4)]
    x = np.sort(rng.integers(-2, 12, 2))
    y = np.sort(rng.integers(-2, 12, 2))
    return {"kind": kind, "subtype": subtype, "base": base, "inserts": ins, "mode": mode,
            "page_size": ps, "box": [float(x[0]), float(y[0]), float(x[1]) + 0.5, float(y[1]) + 0.5],
            "seed": int(rng.integers(2 ** 31))}


def combine(base, inserts):
    """(combined elements, keep = positions of base rows in the combined list)"""
    out, keep = [], []
    k = 0
    for i in range(len(base) + 1):
        while k < len(inserts) and inserts[k][0] == i:
            out.append(inserts[k][1])
            k += 1
        if i < len(base):
            keep.append(len(out))
            out.append(base[i])
    return out, keep


def _eq(a, b):
    a, b = np.asarray(a), np.asarray(b)
    return a.shape == b.shape and np.array_equal(a, b, equal_nan=(a.dtype.kind == "f"))


def check_case(ctx, case, with_dask=False):
    from spatialpandas import GeoDataFrame, sjoin
    from spatialpandas.geometry import PointArray, PolygonArray
    from spatialpandas.spatialindex import HilbertRtree
    kind, subtype = case["kind"], case["subtype"]
    base, ins = case["base"], [(int(a), b) for a, b in case["inserts"]]
    full, keep = combine(base, ins)
    keep = np.array(keep, dtype=np.int64)
    inert_pos = np.array(sorted(set(range(len(full))) - set(keep.tolist())), dtype=np.int64)
    box = tuple(case["box"])
    ps = case["page_size"]
    mode = case["mode"]
    nb, nf = len(base), len(full)

    def viol(clause, op, exp, obs, extra=None):
        forms = sorted({("missing" if f is None else "nan" if gg.coords_of(kind, f) else "empty")
                        for _, f in ins})
        w = {"kind": kind, "subtype": subtype, "mode": mode, "inert_forms": forms,
             "base": base if nb <= 8 else nb, "inserts": ins[:6], "op": op}
        w.update(extra or {})
        ctx.violation(clause, f"inert:{op}:{kind if kind == 'point' else 'list'}:{'+'.join(forms)}:{clause}",
                      w, expected=exp, observed=obs, case=case)

    def run_op(op, fn):
        ok, r, tb = ctx.guarded(fn)
        if not ok:
            if exc_in_repo(tb) or isinstance(r, (IndexError, ZeroDivisionError)):
                forms = sorted({("missing" if f is None else "nan" if gg.coords_of(kind, f) else "empty")
                                for _, f in ins})
                ctx.violation("raised", f"inert:{op}:{kind if kind == 'point' else 'list'}:"
                              f"{'+'.join(forms)}:{mode if mode == 'all' else 'some'}:{type(r).__name__}",
                              {"kind": kind, "subtype": subtype, "mode": mode, "op": op, "inserts": ins[:6],
                               "base": base if nb <= 8 else nb}, observed=short_exc(r), case=case,
                              msg=tb[-1500:])
                return None
            raise r
        ctx.count("pairs_checked")
        ctx.sig(kind, subtype, op, mode)
        ctx.case([kind, subtype, base, ins, op], nontrivial=nb > 0 and len(ins) > 0)
        return r

    a0 = gg.make_array(kind, base, subtype)
    a1 = gg.make_array(kind, full, subtype)
    missing1 = np.array([e is None for e in full], dtype=bool)

    # ---- per-row quantities -------------------------------------------------------------------
    r = run_op("bounds", lambda: (np.asarray(a0.bounds, dtype=float), np.asarray(a1.bounds, dtype=float)))
    if r is not None:
        b0, b1 = r
        if len(inert_pos) and not np.isnan(b1[inert_pos]).all():
            viol("inert-has-bounds", "bounds", "NaN rows", b1[inert_pos].tolist())
        if not _eq(b0.reshape(-1, 4), b1[keep].reshape(-1, 4)):
            viol("others-changed", "bounds", b0.tolist(), b1[keep].tolist())
    for name in ("total_bounds", "total_bounds_x", "total_bounds_y"):
        r = run_op(name, lambda: (np.asarray(getattr(a0, name), dtype=float),
                                  np.asarray(getattr(a1, name), dtype=float)))
        if r is not None and not _eq(*r):
            viol("others-changed", name, r[0].tolist(), r[1].tolist())
    for name in ("length", "area"):
        r = run_op(name, lambda: (np.asarray(getattr(a0, name)), np.asarray(getattr(a1, name))))
        if r is not None:
            m0, m1 = r
            if missing1.any() and not np.isnan(m1[missing1]).all():
                viol("missing-measure-not-nan", name, "NaN", m1[missing1].tolist())
            if not _eq(m0, m1[keep]):
                viol("others-changed", name, m0.tolist(), m1[keep].tolist())
    r = run_op("intersects_bounds", lambda: (np.asarray(a0.intersects_bounds(box)),
                                             np.asarray(a1.intersects_bounds(box))))
    if r is not None:
        if len(inert_pos) and r[1][inert_pos].any():
            viol("inert-satisfies-predicate", "intersects_bounds", False, r[1][inert_pos].tolist())
        if not _eq(r[0], r[1][keep]):
            viol("others-changed", "intersects_bounds", r[0].tolist(), r[1][keep].tolist())
    big = (-1e6, -1e6, 1e6, 1e6)
    r = run_op("intersects_bounds-huge", lambda: np.asarray(a1.intersects_bounds(big)))
    if r is not None and len(inert_pos) and r[inert_pos].any():
        viol("inert-satisfies-predicate", "intersects_bounds", False, r[inert_pos].tolist())
    tb = [-3.0, -3.0, 14.0, 15.0]
    r = run_op("hilbert_distance", lambda: (np.asarray(a0.hilbert_distance(list(tb), p=9)),
                                            np.asarray(a1.hilbert_distance(list(tb), p=9))))
    if r is not None and not _eq(r[0], r[1][keep]):
        viol("others-changed", "hilbert_distance", r[0].tolist(), r[1][keep].tolist())
    if nb:
        r = run_op("hilbert_distance-default", lambda: (np.asarray(a0.hilbert_distance(p=9)),
                                                        np.asarray(a1.hilbert_distance(p=9))))
        if r is not None and not _eq(r[0], r[1][keep]):
            viol("others-changed", "hilbert_distance-default", r[0].tolist(), r[1][keep].tolist())
    if kind == "point":
        sq = PolygonArray([[[-1, -1, 12, -1, 12, 12, -1, 12, -1, -1], [3, 3, 3, 5, 5, 5, 5, 3, 3, 3]]],
                          dtype="float64")[0]
        # hostile null slots: missing points whose slot holds coordinates inside the shape
        h1 = A.hostile_points(full, subtype, fill=(1, 1))
        for nm, arr1 in (("intersects", a1), ("intersects-hostile-null-slots", h1)):
            r = run_op(nm, lambda: (np.asarray(a0.intersects(sq)), np.asarray(arr1.intersects(sq))))
            if r is not None:
                if len(inert_pos) and r[1][inert_pos].any():
                    viol("inert-satisfies-predicate", nm, False, r[1][inert_pos].tolist())
                if not _eq(r[0], r[1][keep]):
                    viol("others-changed", nm, r[0].tolist(), r[1][keep].tolist())
        r = run_op("total_bounds-hostile-null-slots",
                   lambda: (np.asarray(a0.total_bounds, dtype=float), np.asarray(h1.total_bounds, dtype=float)))
        if r is not None and not _eq(*r):
            viol("others-changed", "total_bounds-hostile-null-slots", r[0].tolist(), r[1].tolist())

    # ---- spatial index -------------------------------------------------------------------------
    def tree_answers(arr):
        t = HilbertRtree(np.asarray(arr.bounds, dtype=float), page_size=ps)
        out = []
        for q in (box, big, (0.0, 0.0, 4.0, 4.0)):
            c, o = t.covers_overlaps(q)
            out.append((np.sort(np.asarray(t.intersects(q)).astype(np.int64)),
                        np.sort(np.asarray(c).astype(np.int64)), np.sort(np.asarray(o).astype(np.int64))))
        return out, tuple(float(v) for v in t.total_bounds)
    r = run_op(f"rtree-ps{ps}", lambda: (tree_answers(a0), tree_answers(a1)))
    if r is not None:
        (ans0, tb0), (ans1, tb1) = r
        inert_set = set(inert_pos.tolist())
        pos_of = {int(p_): i for i, p_ in enumerate(keep.tolist())}
        for (i0, c0, o0), (i1, c1, o1) in zip(ans0, ans1):
            if inert_set & set(c1.tolist()):
                viol("inert-covered", "rtree", c0.tolist(), c1.tolist(), {"page_size": ps})
            m = lambda x: sorted(pos_of[v] for v in x.tolist() if v not in inert_set)     # noqa: E731
            if m(i1) != i0.tolist() or m(c1) != c0.tolist() or m(o1) != o0.tolist():
                viol("others-changed", "rtree", [i0.tolist(), c0.tolist(), o0.tolist()],
                     [m(i1), m(c1), m(o1)], {"page_size": ps})
        if nb and not all((x != x and y != y) or x == y for x, y in zip(tb0, tb1)):
            viol("others-changed", "rtree-total_bounds", list(tb0), list(tb1))

    # ---- cx on array and frame, with and without index --------------------------------------------
    x0, y0, x1, y1 = box
    for indexed in (False, True):
        def cx_rows(elements, n_):
            arr = gg.make_array(kind, elements, subtype)
            df = GeoDataFrame({"rid": np.arange(n_), "g": arr})
            if indexed:
                arr = arr.build_sindex(page_size=ps)
                df = df.build_sindex(page_size=ps)
            ra = arr.cx[x0:x1, y0:y1]
            rf = df.cx[x0:x1, y0:y1]
            ro = df.cx[:, y0:y1] if n_ else rf
            rall = (df.cx[-1e6:1e6, -1e6:1e6]["rid"].tolist() + [-7] + df.cx[:, :]["rid"].tolist()) if n_ else [-7]
            return gg.pylist(ra), rf["rid"].tolist(), ro["rid"].tolist(), rall
        op = f"cx-{'ps%d' % ps if indexed else 'noindex'}"
        r = run_op(op, lambda: (cx_rows(base, nb), cx_rows(full, nf)))
        if r is not None:
            (el0, rid0, ro0, ra0), (el1, rid1, ro1, ra1) = r
            inert_set = set(inert_pos.tolist())
            pos_of = {int(p_): i for i, p_ in enumerate(keep.tolist())}
            if inert_set & set(rid1) or inert_set & set(ro1):
                viol("inert-selected", op, rid0, rid1)
            elif inert_set & set(ra1) or [pos_of.get(v, v) for v in ra1] != ra0:
                viol("inert-selected" if inert_set & set(ra1) else "others-changed", op + "-covering-box",
                     ra0, ra1)
            elif [pos_of[v] for v in rid1] != rid0:
                viol("others-changed", op, rid0, [pos_of.get(v, -1) for v in rid1])
            elif nb and [pos_of[v] for v in ro1] != ro0:
                viol("others-changed", op + "-omitted-end", ro0, [pos_of.get(v, -1) for v in ro1])
            elif len(el1) != len(el0) or not all(gg.same_value(a_, b_) for a_, b_ in zip(el0, el1)):
                viol("others-changed", op + "-array", len(el0), len(el1))

    # ---- sjoin ----------------------------------------------------------------------------------------
    def join_pairs(ldf, rdf, how):
        j = sjoin(ldf, rdf, how=how)
        if how == "right":
            return sorted((-1 if v != v else int(v), int(w)) for v, w in zip(j["lid"].tolist(), j["rid2"].tolist()))
        return sorted((int(v), -1 if w != w else int(w)) for v, w in zip(j["lid"].tolist(), j["rid2"].tolist()))
    rng = np.random.default_rng(case["seed"])
    if kind == "point":
        polys = PolygonArray([[[0, 0, 6, 0, 6, 6, 0, 6, 0, 0]], [[2, 2, 9, 2, 9, 9, 2, 9, 2, 2]],
                              [[20, 20, 21, 20, 21, 21, 20, 20]]], dtype="float64")
        right = GeoDataFrame({"rid2": np.arange(3), "poly": polys})
        for how in ("inner", "left"):
            def both():
                l0 = GeoDataFrame({"lid": np.arange(nb), "g": a0})
                l1 = GeoDataFrame({"lid": np.arange(nf), "g": A.hostile_points(full, subtype, fill=(3, 3))})
                return join_pairs(l0, right, how), join_pairs(l1, right, how)
            r = run_op(f"sjoin-{how}-inert-left", both)
            if r is not None:
                p0, p1 = r
                inert_set = set(inert_pos.tolist())
                pos_of = {int(p_): i for i, p_ in enumerate(keep.tolist())}
                matched_inert = [(a_, b_) for a_, b_ in p1 if a_ in inert_set and b_ != -1]
                if matched_inert:
                    viol("inert-matched", f"sjoin-{how}", [], matched_inert)
                rest = sorted((pos_of[a_], b_) for a_, b_ in p1 if a_ not in inert_set)
                if rest != p0:
                    viol("others-changed", f"sjoin-{how}", p0, rest)
                if how == "left":
                    kept = sorted(a_ for a_, b_ in p1 if a_ in inert_set)
                    if kept != sorted(inert_set):
                        viol("inert-row-lost-or-duplicated", "sjoin-left", sorted(inert_set), kept)
    else:
        pts = PointArray(np.array([[1.0, 1.0], [4.5, 4.5], [7.0, 2.0], [3.0, 3.0], [30.0, 30.0]]))
        left = GeoDataFrame({"lid": np.arange(len(pts)), "p": pts})
        for how in ("inner", "right"):
            def both():
                r0 = GeoDataFrame({"rid2": np.arange(nb), "g": a0})
                r1 = GeoDataFrame({"rid2": np.arange(nf), "g": a1})
                return join_pairs(left, r0, how), join_pairs(left, r1, how)
            r = run_op(f"sjoin-{how}-inert-right", both)
            if r is not None:
                p0, p1 = r
                inert_set = set(inert_pos.tolist())
                pos_of = {int(p_): i for i, p_ in enumerate(keep.tolist())}
                matched_inert = [(a_, b_) for a_, b_ in p1 if b_ in inert_set and a_ != -1]
                if matched_inert:
                    viol("inert-matched", f"sjoin-{how}", [], matched_inert)
                rest = sorted((a_, pos_of[b_]) for a_, b_ in p1 if b_ not in inert_set)
                if rest != p0:
                    viol("others-changed", f"sjoin-{how}", p0, rest)

    # ---- Dask: a whole partition of inert rows -------------------------------------------------------------
    if with_dask and nf >= 2:
        import dask
        import dask.dataframe as dd
        uid = int(rng.integers(2 ** 40))

        def dask_ops(elements, n_, npart):
            arr = gg.make_array(kind, elements, subtype)
            df = GeoDataFrame({"rid": np.arange(n_) + uid, "g": arr})
            ddf = dd.from_pandas(df, npartitions=npart)
            with dask.config.set(scheduler="synchronous"):
                tbd = tuple(float(v) for v in ddf.geometry.total_bounds)
                cxr = (ddf.cx[x0:x1, y0:y1].compute()["rid"] - uid).tolist()
                parts = sorted((ddf.cx_partitions[x0:x1, y0:y1].compute()["rid"] - uid).tolist())
                try:
                    pk = ddf.pack_partitions(npartitions=2, p=8).compute()
                    packed = sorted(zip(pk.index.tolist(), (pk["rid"] - uid).tolist()))
                except Exception as e:  # noqa: BLE001 - a raising pack claims nothing (C09)
                    packed = ("raised", type(e).__name__)
            return tbd, cxr, parts, packed
        npart1 = min(nf, max(2, nf // 4)) if mode == "partition" else min(nf, 3)
        r = run_op("dask", lambda: (dask_ops(base, nb, max(1, min(nb, 2))) if nb else None,
                                    dask_ops(full, nf, npart1)))
        if r is not None and r[0] is not None:
            (tb0, cx0, pa0, pk0), (tb1, cx1, pa1, pk1) = r
            inert_set = set(inert_pos.tolist())
            pos_of = {int(p_): i for i, p_ in enumerate(keep.tolist())}
            if not all((x != x and y != y) or x == y for x, y in zip(tb0, tb1)):
                viol("others-changed", "dask-total_bounds", list(tb0), list(tb1))
            if inert_set & set(cx1):
                viol("inert-selected", "dask-cx", cx0, cx1)
            elif sorted(pos_of[v] for v in cx1) != sorted(cx0):
                viol("others-changed", "dask-cx", sorted(cx0), sorted(pos_of[v] for v in cx1))
            if not set(pos_of[v] for v in pa1 if v not in inert_set) >= set(cx0):
                viol("others-changed", "dask-cx_partitions", sorted(cx0), pa1)
            if isinstance(pk0, list) and isinstance(pk1, list):
                rest = sorted((d_, pos_of[v]) for d_, v in pk1 if v not in inert_set)
                if rest != pk0:
                    viol("others-changed", "dask-pack_partitions", pk0[:20], rest[:20])
                if sorted(v for _, v in pk1) != list(range(nf)):
                    viol("inert-row-lost-or-duplicated", "dask-pack_partitions", nf, len(pk1))
    if len(ctx.samples) < 4 and nb and ins:
        ctx.sample({"kind": kind, "subtype": subtype, "mode": mode, "base_rows": nb,
                    "inert_rows": [f for _, f in ins][:4], "page_size": ps, "box": list(box)})


def run(ctx, spec):
    p = spec["params"]
    k = 0
    for kind in p["kinds"]:
        for subtype in p["subtypes"]:
            for _ in range(p["cases"]):
                k += 1
                case = gen_case(ctx.rng, kind, subtype)
                case["with_dask"] = (k % p["dask_every"] == 0)
                check_case(ctx, case, with_dask=case["with_dask"])


def replay(ctx, v):
    check_case(ctx, v["case"], with_dask=bool(v["case"].get("with_dask")))
