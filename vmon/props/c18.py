"""C18 - results do not depend on scheduling, thread count or concurrent use.

Schedule perturbation + result-determinism oracle + offline trace checker:
 (a) every listed operation is computed under the synchronous scheduler with one numba
     thread (reference) and again under dask scheduler {synchronous, threads} x num_workers x
     numba.set_num_threads x a 1 microsecond interpreter switch interval; results must be
     identical (byte level for arrays, records for frames, dataset snapshots for datasets);
 (b) N client threads released by a barrier onto one shared array / index / frame, including
     the first (cache-building) access, with sys.monitoring LINE-event yield injection on the
     check-then-build code objects; every thread must get the single-threaded answer;
 (c) pack_partitions_to_parquet under the threaded scheduler with a delay-injecting recording
     filesystem, also two concurrent calls into sibling paths; the dataset must equal the serial
     one and the fs event log {thread, op, path, t_call, t_return} must satisfy: no path written
     by two tasks, no overlapping writes to one path, every read of a temp directory after the
     last write into it returned, paths of concurrent calls disjoint.
NUMBA_NUM_THREADS itself is varied per shard (one subprocess each)."""
import os
import shutil
import sys
import threading
import time

import numpy as np

from .. import fsmon
from .. import gen_frames as gf
from .. import gen_geom as gg
from ..ctx import exc_in_repo, short_exc, stable_hash

RULE = ("cases = (operation, dask scheduler, num_workers, numba thread count, repeat / seed of the "
        "delay and yield injection); operations: cx, sjoin, bounds/area/length, intersects_bounds, "
        "pack_partitions, pack_partitions_to_parquet (also two concurrent calls), read_parquet_dask, "
        "and N in {2,8,16} client threads sharing one array / R-tree / GeoDataFrame / Dask series on "
        "first access; one evaluation = one perturbed run compared with the serial reference; "
        "non-trivial = run with more than one thread; distinct = hash of (operation, configuration, "
        "seed); the evidence also counts distinct observed interleavings (normalised thread-order "
        "strings of the fs log, distinct yield-decision hashes)")
ASSUMPTIONS = ["no race detector can instrument numba-JIT prange code or CPython attribute caches: a "
               "race that never changes a result, raises, or touches a file in the runs produced is "
               "invisible", "wall-clock is used only for watchdogs, never for verdicts"]
DECIDING_COUNTERS = ["perturbed_runs", "shared_object_runs", "concurrent_pack_runs"]


def shards(tier, seed):
    out = []
    nts = [1, 4, 16] if tier == "quick" else [1, 2, 4, 16]
    for nt in nts:
        b = "B" if nt == 4 else "J"
        out.append({"name": f"numba{nt}-{b}", "build": b, "numba_threads": nt,
                    "env": {"NUMBA_NUM_THREADS": nt, "OMP_NUM_THREADS": nt},
                    "params": {"nt": nt, "reps": 2 if tier == "quick" else 12,
                               "workers": [2, 8] if tier == "quick" else [1, 2, 3, 4, 8, 16],
                               "clients": [2, 8] if tier == "quick" else [2, 8, 16],
                               "packs": 6 if tier == "quick" else 60,
                               "big": 20000 if tier == "quick" else 120000}})
    return out


# ---------------------------------------------------------------------------------------------------
def frames(rng, n=240):
    """point frame + polygon frame + line frame with unique ids (integer coordinates)."""
    pts = [[int(v) for v in rng.integers(0, 100, 2)] for _ in range(n)]
    for i in rng.integers(0, n, 6):
        pts[int(i)] = None
    lines = [gg.transform(gg.rand_element(rng, "multiline", 6), "multiline", 1, int(rng.integers(0, 90)),
                          int(rng.integers(0, 90))) for _ in range(n)]
    polys = [gg.transform(gg.rand_element(rng, "polygon", 5), "polygon", 1, int(rng.integers(0, 90)),
                          int(rng.integers(0, 90))) for _ in range(n)]
    specs = {}
    for name, kind, els in (("pts", "point", pts), ("lines", "multiline", lines), ("polys", "polygon", polys)):
        specs[name] = gf.build_frame(gf.frame_spec(rng, [("g", kind, "float64", els)], n, "default"))
    return specs


def canon(x):
    """Canonical, hashable description of a result."""
    import pandas as pd
    from spatialpandas.geometry import GeometryArray
    if isinstance(x, tuple):
        return tuple(canon(v) for v in x)
    if isinstance(x, np.ndarray):
        return ("nd", x.shape, str(x.dtype), x.tobytes())
    if isinstance(x, GeometryArray):
        return ("ga", stable_hash(_nan(gg.pylist(x))))
    if isinstance(x, pd.DataFrame):
        return ("df", list(x.columns), stable_hash(_nan([[r[0], sorted(r[1].items())] for r in gf.frame_records(x)])))
    if isinstance(x, pd.Series):
        return ("s", stable_hash(_nan([x.index.tolist(), x.tolist()])))
    return ("o", repr(x))


def _nan(o):
    if isinstance(o, float) and o != o:
        return "NaN"
    if isinstance(o, (list, tuple)):
        return [_nan(v) for v in o]
    return o


def dask_ops(F, right, scratch, tag):
    """name -> thunk computing a canonical result with the *current* dask / numba settings."""
    import dask
    import dask.dataframe as dd
    from spatialpandas import sjoin
    from spatialpandas.io import read_parquet_dask
    ops = {}
    box = (20.0, 15.0, 70.5, 80.5)
    for name, df in F.items():
        def mk(df=df, name=name):
            ddf = dd.from_pandas(df, npartitions=6)
            return ddf
        ops[f"cx:{name}"] = lambda mk=mk: canon(mk().cx[box[0]:box[2], box[1]:box[3]].compute())
        ops[f"bounds:{name}"] = lambda mk=mk: canon(mk().geometry.bounds.compute())
        ops[f"area-length:{name}"] = lambda mk=mk: canon((mk().geometry.area.compute(), mk().geometry.length.compute()))
        ops[f"intersects_bounds:{name}"] = lambda mk=mk: canon(mk().geometry.intersects_bounds(box).compute())
        ops[f"pack_partitions:{name}"] = lambda mk=mk: canon(mk().pack_partitions(npartitions=5, p=9).compute())
    ops["sjoin:pts"] = lambda: canon(sjoin(dd.from_pandas(F["pts"], npartitions=6), right, how="inner").compute()
                                     .sort_values(["rid", "w"]).reset_index(drop=True))
    pq_path = os.path.join(scratch, f"c18-read-{tag}.parq")
    if not os.path.exists(pq_path):
        with dask.config.set(scheduler="synchronous"):
            dd.from_pandas(F["polys"], npartitions=7).to_parquet(pq_path)
    ops["read_parquet_dask:polys"] = lambda: canon(read_parquet_dask(pq_path).compute())
    return ops


def pandas_ops(F, right, big):
    from spatialpandas import sjoin
    ops = {}
    box = (20.0, 15.0, 70.5, 80.5)
    for name, df in F.items():
        arr = df["g"].array
        ops[f"np:measures:{name}"] = lambda arr=arr: canon((np.asarray(arr.length), np.asarray(arr.area)))
        ops[f"np:intersects_bounds:{name}"] = lambda arr=arr: canon(np.asarray(arr.intersects_bounds(box)))
    ops["np:intersects:pts"] = lambda: canon(np.asarray(F["pts"]["g"].array.intersects(right["sq"].array[0])))
    ops["np:sjoin:pts"] = lambda: canon(sjoin(F["pts"], right).sort_values(["rid", "w"]).reset_index(drop=True))
    # prange kernels only split work on large inputs
    ops["np:measures:big"] = lambda: canon((np.asarray(big["mline"].length), np.asarray(big["poly"].length),
                                            np.asarray(big["poly"].area), np.asarray(big["mpoly"].area)))
    ops["np:measures:big-fractional"] = lambda: canon((np.asarray(big["poly_f"].area), np.asarray(big["mpoly_f"].area),
                                                       np.asarray(big["poly_f"].length), np.asarray(big["mline_f"].length),
                                                       np.asarray(big["mpoly_f"].length)))
    ops["np:multipoint-box:big"] = lambda: canon(np.asarray(big["mpoint"].intersects_bounds(box)))
    ops["np:polygon-box:big"] = lambda: canon((np.asarray(big["poly"].intersects_bounds(box)),
                                               np.asarray(big["mpoly"].intersects_bounds(box)),
                                               np.asarray(big["mline"].intersects_bounds(box))))
    ops["np:points-in-polygon:big"] = lambda: canon(np.asarray(big["points"].intersects(right["sq"].array[1])))
    return ops


def make_big(rng, n):
    from spatialpandas.geometry import (MultiLineArray, MultiPointArray, MultiPolygonArray, PointArray,
                                        PolygonArray)
    base = [gg.rand_element(rng, "polygon", 5) for _ in range(40)]
    polys = [gg.transform(base[i % 40], "polygon", 1, i % 91, (i * 7) % 83) for i in range(n)]
    for i in range(0, n, 997):
        polys[i] = None
    ml = [[r for r in p] if p is not None else None for p in polys]
    mp = [None if p is None else [p] for p in polys]
    mpt = [None if p is None else p[0] for p in polys]
    # the same shapes with coordinates that need all 53 bits (sums then depend on the order of addition)
    def frac(el):
        return None if el is None else [[v * 1234.5678901 + 5.0e6 + 0.1 * (k_ % 7) for k_, v in enumerate(r)] for r in el]
    polys_f = [frac(p) for p in polys]
    return {"poly_f": PolygonArray(polys_f, dtype="float64"),
            "mpoly_f": MultiPolygonArray([None if p is None else [p, p[:1]] for p in polys_f], dtype="float64"),
            "mline_f": MultiLineArray(polys_f, dtype="float64"),
            "poly": PolygonArray(polys, dtype="float64"), "mline": MultiLineArray(ml, dtype="float64"),
            "mpoly": MultiPolygonArray(mp, dtype="float64"), "mpoint": MultiPointArray(mpt, dtype="float64"),
            "points": PointArray(rng.integers(0, 200, (n, 2)).astype("float64") / 2.0)}


# ---- yield injection with sys.monitoring (statement starts only) ---------------------------------------
class YieldInjector:
    TOOL = 4

    def __init__(self, codes, seed, p=0.35):
        import random
        self.codes, self.rnd, self.p = set(codes), random.Random(seed), p
        self.lock = threading.Lock()
        self.yields = 0
        self.decisions = []

    def __enter__(self):
        mon = sys.monitoring
        mon.use_tool_id(self.TOOL, "vmon-yield")

        def line(code, lineno):
            if code not in self.codes:
                return mon.DISABLE
            with self.lock:
                y = self.rnd.random() < self.p
                self.decisions.append(1 if y else 0)
                if y:
                    self.yields += 1
            if y:
                time.sleep(0)
            return None
        mon.register_callback(self.TOOL, mon.events.LINE, line)
        for c in self.codes:
            mon.set_local_events(self.TOOL, c, mon.events.LINE)
        return self

    def __exit__(self, *a):
        mon = sys.monitoring
        for c in self.codes:
            try:
                mon.set_local_events(self.TOOL, c, 0)
            except Exception:  # noqa: BLE001
                pass
        mon.register_callback(self.TOOL, mon.events.LINE, None)
        mon.free_tool_id(self.TOOL)


def cache_code_objects():
    from spatialpandas import dask as spd
    from spatialpandas.geometry import base
    from spatialpandas.spatialindex import rtree
    fns = [base.GeometryArray.sindex.fget, base.GeometryArray.build_sindex,
           rtree.HilbertRtree.numba_rtree.fget, rtree.HilbertRtree.intersects,
           rtree.HilbertRtree.covers_overlaps, base._BaseCoordinateIndexer.__getitem__,
           base._BaseCoordinateIndexer._get_bounds, base._CoordinateIndexer._perform_get_item,
           spd.DaskGeoSeries.partition_bounds.fget, spd.DaskGeoSeries.partition_sindex.fget,
           spd.DaskGeoDataFrame.partition_sindex.fget]
    import importlib
    sj = importlib.import_module("spatialpandas.tools.sjoin")
    fns.append(sj._sjoin_dask_pandas)
    return [f.__code__ for f in fns]


# ---- trace checker over the fs event log ------------------------------------------------------------------
def check_fs_trace(events, roots):
    """Returns list of (clause, detail).  roots: dataset roots of the concurrent calls."""
    problems = []
    writes = {}
    for e in events:
        if e["op"] == "open" and e["mode"] and "w" in str(e["mode"]) and e["paths"]:
            writes.setdefault(e["paths"][0], []).append(e)
    for path, evs in writes.items():
        threads = {e["thread"] for e in evs}
        oks = [e for e in evs if str(e["outcome"]).startswith("ok")]
        # two tasks writing one path: more than one successful writer that is not a sequential
        # rewrite by design (the _metadata files are written once; part files once)
        for i in range(len(oks)):
            for j in range(i + 1, len(oks)):
                a, b = oks[i], oks[j]
                if a["t_return"] is None or b["t_return"] is None:
                    continue
                if a["t_call"] < b["t_return"] and b["t_call"] < a["t_return"]:
                    problems.append(("overlapping-writes", {"path": path}))
        if len(oks) > 1 and len(threads) > 1 and "/part" in path and path.endswith(".parquet") \
                and os.path.basename(os.path.dirname(path)).startswith(("part.", "t-")):
            problems.append(("path-written-by-two-tasks", {"path": path, "writers": len(oks)}))
    # reads (ls / find / open r) of a temp directory happen after the last write into it returned
    last_write = {}
    for path, evs in writes.items():
        d = os.path.dirname(path)
        for e in evs:
            if e["t_return"] is not None:
                last_write[d] = max(last_write.get(d, 0), e["t_return"])
    first_read = {}
    for e in events:
        if e["op"] in ("ls", "find") and e["paths"]:
            d = e["paths"][0].rstrip("/")
            first_read.setdefault(d, e["t_call"])
    for d, t in first_read.items():
        base = os.path.basename(d)
        if d in last_write and (base.startswith("t-") or base.startswith("part.")) and \
                any(w_["t_call"] > t and os.path.basename(w_["paths"][0]).startswith("part") and
                    os.path.dirname(w_["paths"][0]) == d and w_["op"] == "open" and "w" in str(w_["mode"])
                    for evs in writes.values() for w_ in evs):
            problems.append(("temp-dir-read-before-writes-finished", {"dir": d}))
    # paths of concurrent calls are disjoint: every event belongs to exactly one root
    if len(roots) > 1:
        for e in events:
            hit = {r for r in roots for p_ in e["paths"] if p_.startswith(r)}
            if len(hit) > 1:
                problems.append(("concurrent-calls-share-paths", {"paths": e["paths"]}))
    return problems


def run(ctx, spec):
    import dask
    import dask.dataframe as dd
    import numba
    from spatialpandas import GeoDataFrame
    from spatialpandas.geometry import PolygonArray
    from spatialpandas.spatialindex import HilbertRtree
    p = spec["params"]
    rng = ctx.rng
    nt = p["nt"]
    F = frames(rng)
    right = GeoDataFrame({"w": np.arange(4), "sq": PolygonArray(
        [[[10, 10, 60, 10, 60, 60, 10, 60, 10, 10], [20, 20, 20, 30, 30, 30, 30, 20, 20, 20]],
         [[40, 40, 95, 40, 95, 95, 40, 95, 40, 40]], [[0, 0, 5, 0, 5, 5, 0, 0]],
         [[200, 200, 201, 200, 201, 201, 200, 200]]], dtype="float64")})
    big = make_big(rng, p["big"])
    old_switch = sys.getswitchinterval()

    def viol(clause, mech, w, exp=None, obs=None):
        ctx.violation(clause, mech, w, expected=exp, observed=obs, case={"op": w.get("op"), "config": w.get("config")})

    def guarded(op, cfg, fn):
        ok, r, tb = ctx.guarded(fn)
        if not ok:
            if exc_in_repo(tb) or "numba" in tb or "dask" in tb:
                ctx.violation("raised", f"schedule:{op.split(':')[0]}:raised:{type(r).__name__}",
                              {"op": op, "config": cfg}, observed=short_exc(r), msg=tb[-1500:])
                return None
            raise r
        return r

    # ---- (a) determinism across schedulers / workers / numba threads ---------------------------------------
    numba.set_num_threads(1)
    with dask.config.set(scheduler="synchronous"):
        dops = dask_ops(F, right, ctx.scratch, "ref")
        pops = pandas_ops(F, right, big)
        ref = {}
        for name, fn in {**dops, **pops}.items():
            r = guarded(name, "reference", fn)
            if r is not None:
                ref[name] = r
        ref2 = {name: fn() for name, fn in list(pops.items())[:3]}
        for name in ref2:
            if ref2[name] != ref[name]:
                viol("nondeterminism", f"schedule:{name.split(':')[1]}:serial-repeat-differs",
                     {"op": name, "config": "reference"})
    cfgs = [("synchronous", 1)] + [("threads", w_) for w_ in p["workers"]]
    nthreads = sorted({1, nt, max(1, nt // 2)})
    for rep in range(p["reps"]):
        for sched, workers in cfgs:
            for n_numba in nthreads:
                numba.set_num_threads(n_numba)
                sys.setswitchinterval(1e-6 if rep % 2 == 0 else old_switch)
                cfg = f"{sched}:{workers}:numba{n_numba}/{nt}:switch{'1us' if rep % 2 == 0 else 'default'}"
                kw = {"scheduler": sched}
                if sched == "threads":
                    kw["num_workers"] = workers
                with dask.config.set(**kw):
                    names = list(ref)
                    if rep > 0:          # later repetitions: a seeded half of the operations
                        names = [n_ for n_ in names if rng.random() < 0.5]
                    for name in names:
                        fn = dops.get(name) or pops.get(name)
                        if sched == "threads" and name.startswith("np:") and workers != cfgs[1][1]:
                            continue
                        r = guarded(name, cfg, fn)
                        if r is None:
                            continue
                        ctx.count("perturbed_runs")
                        ctx.case([name, cfg, rep], nontrivial=(workers > 1 or n_numba > 1))
                        ctx.sig(name.split(":")[0] if not name.startswith("np:") else "np:" + name.split(":")[1],
                                sched, f"w{workers}", f"numba{n_numba}")
                        if r != ref[name]:
                            viol("schedule-dependence", f"schedule:{name.replace('np:', '').split(':')[0]}:"
                                 f"result-differs-from-serial:{'numba-threads' if sched == 'synchronous' else 'dask-threads'}",
                                 {"op": name, "config": cfg})
    sys.setswitchinterval(old_switch)
    numba.set_num_threads(nt)

    # ---- (b) client threads sharing one object, first access included ------------------------------------------
    codes = cache_code_objects()
    box = (20.0, 15.0, 70.5, 80.5)
    distinct_yield_hashes = set()
    total_yields = 0
    builds_seen = 0

    def shared_trial(name, make, query, nclients, seed):
        nonlocal total_yields, builds_seen
        obj_ref = make()
        expect = canon(query(obj_ref))
        obj = make()
        barrier = threading.Barrier(nclients)
        results, errors = [None] * nclients, [None] * nclients
        inside = {"n": 0, "max": 0}
        lk = threading.Lock()

        def client(i):
            try:
                barrier.wait(timeout=60)
                if seed % 2:
                    # staggered arrival: later clients come while the first ones are inside their first access
                    time.sleep(0.004 * i)
                with lk:
                    inside["n"] += 1
                    inside["max"] = max(inside["max"], inside["n"])
                try:
                    results[i] = canon(query(obj))
                finally:
                    with lk:
                        inside["n"] -= 1
            except BaseException as e:  # noqa: BLE001
                import traceback
                errors[i] = (e, traceback.format_exc())
        sys.setswitchinterval(1e-6)
        try:
            with YieldInjector(codes, seed) as yi:
                ts = [threading.Thread(target=client, args=(i,)) for i in range(nclients)]
                for t_ in ts:
                    t_.start()
                for t_ in ts:
                    t_.join(timeout=300)
                alive = any(t_.is_alive() for t_ in ts)
        finally:
            sys.setswitchinterval(old_switch)
        total_yields += yi.yields
        distinct_yield_hashes.add(hash(tuple(yi.decisions)))
        if inside["max"] > 1:
            builds_seen += 1
        ctx.count("shared_object_runs")
        ctx.case([name, nclients, seed], nontrivial=True)
        ctx.sig("shared", name, f"clients{nclients}")
        if alive:
            ctx.note(f"shared {name}: client thread still running after 300 s (inconclusive, not a verdict)")
            ctx.count("shared_watchdog_fired")
            return
        for i in range(nclients):
            if errors[i] is not None:
                e, tb = errors[i]
                last = tb.strip().splitlines()[-8:]
                if isinstance(e, KeyError) and any("dask/_expr.py" in ln_ for ln_ in last) and \
                        any("_instances" in ln_ for ln_ in last):
                    # dask's own expression cache (a WeakValueDictionary looked up without a lock) lost a race
                    # between two threads building the same expression: raised and caused inside dask, it says
                    # nothing about the object under test - this trial is inconclusive, not a verdict
                    ctx.count("dask_expression_cache_races")
                    return
                ctx.violation("concurrent-use", f"schedule:shared-{name}:client-raised:{type(e).__name__}",
                              {"op": name, "config": f"clients{nclients}:seed{seed}"}, observed=short_exc(e),
                              msg=tb[-1500:])
                return
            if results[i] != expect:
                viol("concurrent-use", f"schedule:shared-{name}:client-got-different-answer",
                     {"op": name, "config": f"clients{nclients}:seed{seed}"})
                return

    arr_src = F["polys"]["g"].array
    bounds_src = np.asarray(arr_src.bounds)
    trials = [
        ("array-cx-first-access", lambda: arr_src.copy(), lambda a: a.cx[box[0]:box[2], box[1]:box[3]]),
        ("array-sindex-query", lambda: arr_src.copy(), lambda a: np.sort(a.sindex.intersects(box))),
        ("rtree-first-query", lambda: HilbertRtree(bounds_src, page_size=16),
         lambda t: tuple(np.sort(x) for x in t.covers_overlaps(box))),
        ("frame-cx", lambda: F["polys"].copy(), lambda d: d.cx[box[0]:box[2], box[1]:box[3]]),
        ("array-measures", lambda: arr_src.copy(), lambda a: (np.asarray(a.area), np.asarray(a.length),
                                                              np.asarray(a.intersects_bounds(box)))),
        ("dask-partition-index", lambda: dd.from_pandas(F["lines"], npartitions=5),
         lambda d: (np.asarray(d.geometry.total_bounds, dtype=float), d.partition_sindex.intersects(box) * 1,
                    d.cx[box[0]:box[2], box[1]:box[3]].compute(scheduler="synchronous"))),
    ]
    # one DaskGeoSeries object shared by all clients (its caches are filled by whoever comes first)
    trials.append(("dask-series-bounds-and-cx", lambda: dd.from_pandas(F["lines"], npartitions=5).geometry,
                   lambda s_: (lambda pb_: (type(pb_).__module__.split(".")[0] + "." + type(pb_).__name__,
                                            np.asarray(pb_.values, dtype=float),
                                            type(s_.partition_sindex).__name__,
                                            s_.cx[box[0]:box[2], box[1]:box[3]].compute(scheduler="synchronous")))(
                       s_.partition_bounds)))
    # joins that find no candidate partition next to reads: process-wide settings must stay what they were
    from spatialpandas import sjoin as _sjoin
    from spatialpandas.io import read_parquet_dask as _rpd
    far_right = GeoDataFrame({"w": np.arange(2), "sq": PolygonArray(
        [[[10 ** 6, 10 ** 6, 10 ** 6 + 5, 10 ** 6, 10 ** 6 + 5, 10 ** 6 + 5, 10 ** 6, 10 ** 6]],
         [[2 * 10 ** 6, 10 ** 6, 2 * 10 ** 6 + 5, 10 ** 6, 2 * 10 ** 6 + 5, 10 ** 6 + 5, 2 * 10 ** 6, 10 ** 6]]],
        dtype="float64")})
    pq_share = os.path.join(ctx.scratch, "c18-shared-read.parq")
    with dask.config.set(scheduler="synchronous"):
        dd.from_pandas(F["lines"], npartitions=3).to_parquet(pq_share)
    trials.append(("dask-empty-sjoin-next-to-reads", lambda: dd.from_pandas(F["pts"], npartitions=6),
                   lambda d_: (_sjoin(d_, far_right, how="inner").compute(scheduler="synchronous"),
                               tuple(str(t_) for t_ in _rpd(pq_share).dtypes),
                               tuple(str(t_) for t_ in dd.from_pandas(F["polys"], npartitions=2).dtypes),
                               str(dask.config.get("dataframe.convert-string", None)))))
    for rep in range(p["reps"]):
        for nclients in p["clients"]:
            for ti, (name, make, query) in enumerate(trials):
                # (the parity of the seed decides whether the clients arrive together or staggered: for every
                #  trial one of the client counts is staggered)
                ok, r, tb = ctx.guarded(shared_trial, name, make, query, nclients,
                                        ctx.seed * 1000 + rep * 18 + nclients // 2 + ti)
                if not ok:
                    if exc_in_repo(tb):
                        ctx.violation("raised", f"schedule:shared-{name}:raised:{type(r).__name__}",
                                      {"op": name}, observed=short_exc(r), msg=tb[-1500:])
                    else:
                        raise r
    ctx.extra["injected_yields"] = total_yields
    ctx.extra["distinct_yield_decision_hashes"] = len(distinct_yield_hashes)
    ctx.extra["trials_with_two_threads_inside_at_once"] = builds_seen

    # ---- (c) concurrent pack_partitions_to_parquet + fs trace checker ----------------------------------------
    # two sources: a spread-out one (all 6 outputs non-empty) and one with few distinct points
    # (gaps of empty outputs, so that the surviving parts are renumbered in a chain)
    from spatialpandas.geometry import PointArray
    few = np.array([[1, 1], [60, 3], [5, 70], [90, 90], [40, 40]], dtype="float64")
    src_few = GeoDataFrame({"rid": np.arange(200) + (9 << 24), "g": PointArray(few[np.arange(200) % 5])})
    sources = [(dd.from_pandas(F["lines"], npartitions=5), 6), (dd.from_pandas(src_few, npartitions=4), 12)]
    golds = []
    for gi, (ddf_, k_) in enumerate(sources):
        gold_root = os.path.join(ctx.scratch, f"c18-gold{gi}")
        os.makedirs(gold_root)
        with dask.config.set(scheduler="synchronous"):
            ddf_.pack_partitions_to_parquet(os.path.join(gold_root, "ds.parq"), npartitions=k_, p=7)
        golds.append(fsmon.dataset_snapshot(os.path.join(gold_root, "ds.parq")))
    orders = set()
    events_total = 0
    for i in range(p["packs"]):
        workers = [2, 4, 8, 16][i % 4]
        two = (i % 3 == 2)
        ddf, kout = sources[(i // 2) % 2]
        gold = golds[(i // 2) % 2]
        root = os.path.join(ctx.scratch, f"c18-pack{i}")
        os.makedirs(os.path.join(root, "tmp"))
        # (longer and more frequent delays for the layout in which the tasks share a parent directory)
        fs = fsmon.MonFS(delay_seed=ctx.seed * 977 + i, delay_p=0.6 if i % 3 == 2 else 0.3,
                         delay_max=0.012 if i % 3 == 2 else 0.004)
        if i % 4 >= 2:
            fs.listing_order = "creation"      # listings follow the (schedule-dependent) creation order
        paths = [os.path.join(root, "a.parq")] + ([os.path.join(root, "b.parq")] if two else [])
        # temp directories: inside the dataset / outside, one per partition / outside, all below one {uuid} directory
        tdfmt = [None, os.path.join(root, "tmp", "t-{uuid}-{partition}"),
                 os.path.join(root, "tmp", "{uuid}", "part-{partition}")][i % 3]
        errs = []

        def do(path):
            try:
                with dask.config.set(scheduler="threads", num_workers=workers):
                    ddf.pack_partitions_to_parquet(path, filesystem=fs, npartitions=kout, p=7,
                                                   tempdir_format=tdfmt)
            except BaseException as e:  # noqa: BLE001
                import traceback
                errs.append((e, traceback.format_exc()))
        sys.setswitchinterval(1e-6)
        try:
            ts = [threading.Thread(target=do, args=(pp,)) for pp in paths]
            for t_ in ts:
                t_.start()
            for t_ in ts:
                t_.join(timeout=600)
        finally:
            sys.setswitchinterval(old_switch)
        fs.armed = False
        cfg = f"threads:{workers}:{'two-calls' if two else 'one-call'}:{'ext' if tdfmt else 'inside'}:{'gaps' if kout == 12 else 'full'}:seed{i}"
        ctx.count("concurrent_pack_runs")
        ctx.case(["pack_to_parquet", cfg], nontrivial=True)
        ctx.sig("pack_to_parquet", f"w{workers}", "two" if two else "one", "ext" if tdfmt else "inside",
                "creation-ordered-listing" if fs.listing_order else "-",
                "empty-outputs" if kout == 12 else "-")
        events_total += len(fs.events)
        orders.add(fsmon.thread_order_string(fs.events))
        if errs:
            e, tb = errs[0]
            ctx.violation("raised", f"schedule:pack_to_parquet:raised-under-threads:{type(e).__name__}",
                          {"op": "pack_partitions_to_parquet", "config": cfg}, observed=short_exc(e),
                          msg=tb[-1500:])
        else:
            for pp in paths:
                snap = fsmon.dataset_snapshot(pp)
                if snap != gold:
                    what = [k for k in ("listing", "parts", "spatial", "metadata_row_groups", "metadata_detail") if snap[k] != gold[k]]
                    viol("schedule-dependence", f"schedule:pack_to_parquet:dataset-differs-from-serial:"
                         f"{'two-calls' if two else 'one-call'}", {"op": "pack_partitions_to_parquet", "config": cfg,
                                                                  "differs": what})
            tree = fsmon.scan_tree(root)
            left = sorted(t for t in tree if t.startswith("tmp/") and t != "tmp/")
            if i % 3 == 2:
                # with the per-partition directories below one {uuid} directory, that (then empty) directory stays
                # behind in the serial run as well (a C10 finding, see known_findings.json): it does not depend on
                # the schedule and is not this property's business
                import re as _re
                left = [t for t in left if not (_re.fullmatch(r"tmp/[0-9a-f-]{36}/", t)
                                                and not any(u != t and u.startswith(t) for u in tree))]
            if left:
                viol("leftovers", "schedule:pack_to_parquet:temp-left-under-threads",
                     {"op": "pack_partitions_to_parquet", "config": cfg}, [], left[:8])
        for clause, detail in check_fs_trace(fs.events, [pp + "/" for pp in paths] if two else [paths[0] + "/"]):
            viol("fs-trace", f"schedule:pack_to_parquet:{clause}", {"op": "pack_partitions_to_parquet",
                                                                   "config": cfg, **detail})
        shutil.rmtree(root, ignore_errors=True)
    # ---- (d) reading several datasets at once through a delay-injecting filesystem ------------------------
    from spatialpandas.io import read_parquet_dask
    mroot = os.path.join(ctx.scratch, "c18-multi")
    os.makedirs(mroot)
    with dask.config.set(scheduler="synchronous"):
        L = F["lines"]
        for nm, fr, k_ in (("a.parq", L.iloc[:100], 3), ("b.parq", L.iloc[100:180].assign(rid=L["rid"].iloc[100:180] + (1 << 30)), 4),
                           ("c.parq", L.iloc[180:][::-1], 2)):
            dd.from_pandas(fr, npartitions=k_, sort=False).to_parquet(os.path.join(mroot, nm))
        paths3 = [os.path.join(mroot, n_) for n_ in ("a.parq", "b.parq", "c.parq")]

        def multi_canon(fs_):
            r_ = read_parquet_dask(paths3, filesystem=fs_) if fs_ is not None else read_parquet_dask(paths3)
            pb = {c: t.values.tolist() for c, t in (getattr(r_, "_partition_bounds", None) or {}).items()}
            return canon((stable_hash(_nan(pb)), r_.cx[20.0:70.5, 15.0:80.5].compute().sort_values("rid"),
                          np.asarray(r_.geometry.total_bounds, dtype=float)))
        mref = guarded("read_parquet_dask:multi", "reference", lambda: multi_canon(None))
    if mref is not None:
        for i in range(max(4, p["packs"] // 2)):
            fs = fsmon.MonFS(delay_seed=ctx.seed * 31 + i, delay_p=0.6, delay_max=0.02)
            with dask.config.set(scheduler="threads", num_workers=[2, 8][i % 2]):
                r = guarded("read_parquet_dask:multi", f"delays-seed{i}", lambda: multi_canon(fs))
            if r is None:
                continue
            ctx.count("perturbed_runs")
            ctx.case(["read_parquet_dask-multi", i], nontrivial=True)
            ctx.sig("read_parquet_dask-multi", "delays")
            if r != mref:
                viol("schedule-dependence", "schedule:read_parquet_dask:several-datasets:result-depends-on-io-timing",
                     {"op": "read_parquet_dask([a, b, c])", "config": f"delays-seed{i}"})
    ctx.extra["distinct_fs_thread_orders"] = len(orders)
    ctx.extra["fs_events"] = events_total
    ctx.sample({"numba_threads": nt, "dask_configs": [f"{s}:{w_}" for s, w_ in cfgs],
                "operations": sorted(ref)[:8], "distinct_fs_thread_orders": len(orders),
                "injected_yields": total_yields})


def replay(ctx, v):
    ctx.note("C18 violations are schedule-dependent: replay re-runs the whole shard configuration")
    run(ctx, {"params": {"nt": 4, "reps": 1, "workers": [2, 8], "clients": [2, 8], "packs": 4, "big": 20000}})
