"""C09 - pack_partitions keeps every row and orders rows along the Hilbert curve.

Monitor on the real DaskGeoDataFrame.pack_partitions: every output partition is computed
separately; conservation over unique row ids + checksum + all columns, index compared with
the row's Hilbert distance recomputed on the pandas twin against the exact total bounds of
the whole frame (C08 decides that function), sortedness within and across partitions,
partition count, independence of the input partitioning."""
import numpy as np

from .. import gen_frames as gf
from .. import gen_geom as gg
from ..ctx import exc_in_repo, short_exc
from .c13 import total_ref

RULE = ("cases = (frame of any geometry kind with 1-2 geometry columns and a chosen active one, "
        "missing and duplicate geometries, input partitioning 1..k incl. already sorted input and "
        "empty partitions produced by filtering, npartitions 1..12, p in {1,2,6,10,15,20}); each "
        "frame is packed from two different input partitionings; one evaluation = one pack call; "
        "non-trivial = call returned and frame has >= 2 distinct Hilbert distances; distinct = "
        "hash of (frame, partitioning, npartitions, p)")
ASSUMPTIONS = ["a raising call claims nothing (counted as 'raised'); a run where every call raised is "
               "inconclusive", "synchronous scheduler (schedules are C18's business)"]
USE_CONTRACTS = True      # in-situ icontract monitors (vmon/contracts.py)
SPLIT_KINDS = True         # thorough tier: one shard per geometry kind
DECIDING_COUNTERS = ["packs_returned"]


def shards(tier, seed):
    n = 30 if tier == "quick" else 450
    out = []
    kinds = gg.KINDS
    for i, grp in enumerate([kinds[:3], kinds[3:5], kinds[5:]]):
        for b in ("J", "B"):
            out.append({"name": f"{'+'.join(grp)}-{b}", "build": b,
                        "params": {"kinds": grp, "cases": n if b == "J" else n // 2}})
    return out


def gen_case(rng, kind):
    n = int(rng.choice([1, 2, 3, 5, 8, 13, 21, 40, 40, 80]))
    sc = int(rng.choice([1, 4, 16]))
    els = [gg.transform(gg.rand_element(rng, kind, 5), kind, sc, int(rng.integers(0, 40)) * sc,
                        int(rng.integers(0, 40)) * sc) for _ in range(n)]
    if n > 2 and rng.random() < 0.4:
        els[1] = els[0]
    for _ in range(int(rng.integers(0, 3))):
        els[int(rng.integers(n))] = None
    mode = rng.random()
    if mode < 0.12 and kind in ("point", "multipoint", "line"):
        # degenerate extent: everything on a vertical line
        els = [None if e is None else [3 if i % 2 == 0 else v for i, v in enumerate(e)] for e in els]
    other_kind = "point" if kind != "point" else "line"
    other = [gg.rand_element(rng, other_kind, 50) for _ in range(n)]
    cols = [("g1", kind, "float64", els), ("g2", other_kind, "float64", other)]
    if rng.random() < 0.5:
        cols = cols[::-1]
    spec = gf.frame_spec(rng, cols, n, gf.INDEX_KINDS[int(rng.integers(len(gf.INDEX_KINDS)))])
    spec["geometry"] = "g1"
    if rng.random() < 0.06:
        spec["reserved_named_columns"] = ["hilbert_distance"]
    return {"spec": spec, "kind": kind, "parts": [int(rng.integers(1, 6)), int(rng.integers(1, 6)) if rng.random() < 0.8 else 12],
            "filter": bool(rng.random() < 0.35), "touch_cache": bool(rng.random() < 0.6), "presort": bool(rng.random() < 0.2),
            "repack": int(rng.choice([3, 7, 12])) if rng.random() < 0.2 else 0,
            # a .cx selection (after the parent's caches were filled) as the frame to pack
            "cx_filter": [float(v) for v in rng.uniform(0.2, 0.8, 2)] if rng.random() < 0.25 else None,
            # the same frame object was packed before with another curve order
            "np_ints": bool(rng.random() < 0.3), "built_sindex": bool(rng.random() < 0.25), "via_mixed_parquet": bool(rng.random() < 0.12),
            # rows travel through pickle with the on-disk shuffle
            "shuffle": [None, None, None, "tasks", "disk"][int(rng.integers(5))],
            "packed_before_p": int(rng.choice([1, 3, 9, 14])) if rng.random() < 0.2 else 0,
            "npartitions": int(rng.integers(1, 13)) if rng.random() < 0.4 else int(rng.integers(1, max(2, min(12, n // 3)) + 1)), "p": int(rng.choice([1, 2, 6, 10, 15, 20]))}


def check_case(ctx, case):
    import dask
    import dask.dataframe as dd
    spec, kind = case["spec"], case["kind"]
    p, k = case["p"], case["npartitions"]

    def rec_raise(where, e, tb):
        ctx.violation("raised", f"pack_partitions:{where}:{type(e).__name__}",
                      {"kind": kind, "n": spec["n"]}, observed=short_exc(e), case=case, msg=tb[-1500:])

    ok, df, tb = ctx.guarded(gf.build_frame, spec)
    if not ok:
        if exc_in_repo(tb):
            return rec_raise("build", df, tb)
        raise df
    if case["filter"]:
        keep = df["val"] >= df["val"].median()
    act = df.geometry.name
    results = []
    for npin in case["parts"]:
        src = df
        if case["presort"]:
            order = np.argsort(src[act].array.hilbert_distance(p=p), kind="stable")
            src = src.iloc[order]
        with dask.config.set(scheduler="synchronous"):
            ddf = dd.from_pandas(src, npartitions=max(1, min(npin, len(src))), sort=False)
            if case["filter"]:
                if case.get("touch_cache"):
                    # per-partition caches of the parent must not leak into the filtered frame
                    ddf.partition_sindex
                    ddf.geometry.total_bounds
                med = float(df["val"].median())
                ddf = ddf[ddf["val"] >= med]
                src = src[src["val"] >= med]
            if case.get("cx_filter") and len(src):
                tb0 = list(total_ref(kind, gg.pylist(src[act].array)))
                # (only boxes of positive width and height: nothing is promised about a degenerate selection box)
                if tb0[0] == tb0[0] and tb0[2] > tb0[0] and tb0[3] > tb0[1]:
                    ddf.partition_sindex
                    ddf.geometry.partition_bounds
                    fx, fy = case["cx_filter"]
                    ok0, sel, tbx = ctx.guarded(lambda: (lambda q: (q, q.compute()))(
                        ddf.cx[tb0[0]:tb0[0] + fx * (tb0[2] - tb0[0]), tb0[1]:tb0[1] + fy * (tb0[3] - tb0[1])]))
                    if not ok0:
                        return rec_raise("cx-before-pack", sel, tbx)
                    ddf, src = sel           # the model is what the selection holds (C06 decides the selection)
                    ctx.count("packs_of_cx_selection")
            if case.get("via_mixed_parquet") and len(src) >= 2:
                # the frame to pack comes from one read of two datasets of which only one carries the spatial
                # metadata (the model is what that read holds: C11 / C06 decide the read itself)
                import os
                import shutil
                from spatialpandas.io import read_parquet_dask
                root = os.path.join(ctx.scratch, f"c09-mixed-{spec['uid']}-{npin}")
                shutil.rmtree(root, ignore_errors=True)
                os.makedirs(root)
                whole = ddf.compute()
                h_ = len(whole) // 2
                ok0, sel, tbx = ctx.guarded(lambda: (
                    dd.from_pandas(whole.iloc[:h_], npartitions=min(2, h_), sort=False).to_parquet(os.path.join(root, "a.parq")),
                    dd.to_parquet(dd.from_pandas(whole.iloc[h_:], npartitions=min(3, len(whole) - h_), sort=False),
                                  os.path.join(root, "b.parq"), write_metadata_file=False),
                    (lambda q: (q, q.compute()))(read_parquet_dask(
                        [os.path.join(root, "a.parq"), os.path.join(root, "b.parq")], geometry=act)))[2])
                if not ok0:
                    shutil.rmtree(root, ignore_errors=True)
                    return rec_raise("mixed-parquet-before-pack", sel, tbx)
                ddf, src = sel
                ctx.count("packs_of_mixed_parquet_read")
            if len(src) == 0:
                return
            if case.get("built_sindex"):
                ddf = ddf.build_sindex()            # per-partition R-trees exist when the distances are computed
            if case.get("packed_before_p"):
                ok0, r0, tbx = ctx.guarded(lambda: ddf.pack_partitions(npartitions=2, p=int(case["packed_before_p"])).compute())
                ctx.count("packs_of_frame_packed_before")
            vals = gg.pylist(src[act].array)
            tbref = list(total_ref(kind, vals))
            if case.get("repack"):
                # the input is itself a packed frame (index already named hilbert_distance),
                # packed before with another curve order
                ok0, ddf0, tb0 = ctx.guarded(lambda: ddf.pack_partitions(npartitions=max(1, min(3, len(src))),
                                                                           p=int(case["repack"])))
                if ok0:
                    ddf = ddf0
            ok, r, tb = ctx.guarded(lambda: (lambda pk: (pk.npartitions,
                                                         list(dask.compute(*pk.to_delayed())),
                                                         pk.divisions))
                                    (ddf.pack_partitions(npartitions=np.int64(k) if case.get("np_ints") else k,
                                                         p=np.int32(p) if case.get("np_ints") else p,
                                                         **({"shuffle": case["shuffle"]} if case.get("shuffle") else {}))))
        if not ok:
            ctx.count("evaluations")
            # Dask cannot split a frame whose rows all share one Hilbert distance: nothing claimed
            ctx.count("raised")
            ctx.sig(kind, "raised", type(r).__name__)
            continue
        ctx.count("packs_returned")
        npk, parts, divs = r
        # expected distances on the pandas twin
        if tbref[0] != tbref[0] or tbref[1] != tbref[1]:
            exp = None
        else:
            exp = dict(zip(src["rid"].tolist(),
                           src[act].array.hilbert_distance(total_bounds=list(tbref), p=p).tolist()))
        nd = len(set(exp.values())) if exp else 0
        ctx.case([spec["cols"][0]["elements"], spec["cols"][1]["elements"], npin, case["filter"], k, p],
                 nontrivial=nd >= 2)
        ctx.sig(kind, f"in{min(npin, 3)}", "filter" if case["filter"] else "-",
                "presort" if case["presort"] else "-", "repack" if case.get("repack") else "-", "cx" if case.get("cx_filter") else "-",
                "again" if case.get("packed_before_p") else "-", str(case.get("shuffle") or "default"), f"out{min(k, 4)}", f"p{p}",
                "missing" if any(v is None for v in vals) else "-")
        w = {"kind": kind, "n": len(src), "npartitions_in": npin, "npartitions": k, "p": p,
             "active": act}
        if npk != k:
            ctx.violation("partition-count", "pack_partitions:partition-count", w, expected=k,
                          observed=npk, case=case)
        # (a re-packed frame has lost its original index: rows are compared without it anyway)
        in_recs = gf.multiset([(0, r_[1]) for r_ in gf.frame_records(src)])
        out_recs_list = []
        all_idx = []
        for part in parts:
            if type(part).__name__ != "GeoDataFrame":
                ctx.violation("type", "pack_partitions:partition-type", w,
                              observed=type(part).__name__, case=case)
            out_recs_list += [(0, r_[1]) for r_ in gf.frame_records(part)]
            idx = part.index.tolist()
            all_idx.append(idx)
        out_recs = gf.multiset(out_recs_list)
        if out_recs != in_recs:
            lost = sum((in_recs - out_recs).values())
            extra = sum((out_recs - in_recs).values())
            ctx.violation("conservation", f"pack_partitions:rows-{'lost' if lost else 'altered'}"
                          f"{':missing-geometry' if any(v is None for v in vals) else ''}", w,
                          expected=len(src), observed={"rows": len(out_recs_list), "lost": lost,
                                                       "extra": extra}, case=case)
            continue
        flat = [v for idx in all_idx for v in idx]
        if flat and (min(flat) < 0 or max(flat) >= 4 ** p):
            ctx.violation("index", "pack_partitions:index-outside-curve-range", w, expected=[0, 4 ** p - 1],
                          observed=[int(min(flat)), int(max(flat))], case=case)
        if any(a > b for a, b in zip(flat, flat[1:])):
            ctx.violation("order", "pack_partitions:not-sorted", w, observed=flat[:40], case=case)
        if exp is not None:
            got = {}
            for part in parts:
                for rid, d_ in zip(part["rid"].tolist(), part.index.tolist()):
                    got[rid] = d_
            bad = {r_: (exp[r_], got.get(r_)) for r_ in exp if got.get(r_) != exp[r_]}
            if bad:
                ctx.violation("index", "pack_partitions:index-not-hilbert-distance-of-active-geometry",
                              {**w, "total_bounds": tbref}, expected={str(k_): v[0] for k_, v in list(bad.items())[:5]},
                              observed={str(k_): v[1] for k_, v in list(bad.items())[:5]}, case=case)
        results.append(sorted(zip(flat, [r_ for part in parts for r_ in part["rid"].tolist()])))
        if len(ctx.samples) < 4:
            ctx.sample({"kind": kind, "rows": len(src), "npartitions_in": npin, "npartitions": k,
                        "p": p, "packed_index_head": flat[:8], "partition_sizes": [len(i) for i in all_idx]})
    if len(results) == 2:
        ctx.count("cross_partitioning_checked")
        if [d_ for d_, _ in results[0]] != [d_ for d_, _ in results[1]] or \
                sorted(results[0]) != sorted(results[1]):
            ctx.violation("partitioning-dependence", "pack_partitions:depends-on-input-partitioning",
                          {"kind": kind, "parts": case["parts"]}, case=case)


def run(ctx, spec):
    for kind in spec["params"]["kinds"]:
        for _ in range(spec["params"]["cases"]):
            check_case(ctx, gen_case(ctx.rng, kind))


def replay(ctx, v):
    check_case(ctx, v["case"])
