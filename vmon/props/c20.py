"""C20 - the active geometry column is honoured and survives frame operations.

Monitor: a model of the frame state (expected active geometry name, expected result type) is
advanced through a replayable history of frame operations on frames with several geometry
columns of different kinds (active one neither first nor named 'geometry', optionally with a
decoy column literally named 'geometry'); after every step .geometry / the result type are
compared with the model and every spatial operation (cx, build_sindex, sjoin, Hilbert
packing, partition bounds - pandas and every Dask partition) is compared with the same
operation on a single-geometry frame holding only the expected column."""
import os
import pickle

import numpy as np
import pandas as pd

from .. import gen_geom as gg
from ..ctx import exc_in_repo, short_exc

RULE = ("cases = operation histories of 1-7 steps over {iloc, loc, boolean mask, head, sort_values, "
        "copy, column subset with / without the active column / without any geometry, cx, pickle, "
        "pd.concat of agreeing frames, set_geometry, Dask from_pandas+compute (1..4 partitions), "
        "parquet re-read with geometry=<any>} on frames with 3-4 geometry columns; after each step "
        "the active geometry and type are checked and spatial operations are compared with a "
        "single-geometry twin; one evaluation = one (history prefix, check); non-trivial = frame "
        "with >= 2 geometry columns and >= 1 row; distinct = hash of (frame spec, history prefix)")
ASSUMPTIONS = ["a column subset that drops the active column but keeps other geometry columns is "
               "not constrained by the statement: the model is re-synchronised from the frame there",
               "cx / sjoin themselves are decided by C04 / C05; here only *which column* they use"]
USE_CONTRACTS = True      # in-situ icontract monitors (vmon/contracts.py)
DECIDING_COUNTERS = ["state_checks", "spatial_checks"]

OPS = ["iloc", "loc", "mask", "head", "sort", "copy", "subset_with", "subset_without_active",
       "subset_plain", "cx", "pickle", "concat", "set_geometry", "dask", "parquet", "dask_ops", "reconstruct",
       "set_geometry_alias"]


def shards(tier, seed):
    n = 60 if tier == "quick" else 500
    out = []
    for i in range(2 if tier == "quick" else 6):
        for b in ("J", "B"):
            out.append({"name": f"hist{i}-{b}", "build": b, "params": {"cases": n if b == "J" else n // 2}})
    return out


def gen_case(rng):
    n = int(rng.integers(2, 12))
    # three layouts, spatially separated so that the columns select different rows
    pts = [[int(rng.integers(0, 10)), int(rng.integers(0, 10))] for _ in range(n)]
    polys = []
    for _ in range(n):
        x, y = int(rng.integers(20, 30)), int(rng.integers(0, 10))
        polys.append([gg.flat([(x, y), (x + 2, y), (x + 2, y + 2), (x, y + 2), (x, y)])])
    lines = [[int(rng.integers(0, 10)), int(rng.integers(20, 30)), int(rng.integers(0, 10)),
              int(rng.integers(20, 30))] for _ in range(n)]
    mpts = [[int(rng.integers(40, 50)), int(rng.integers(40, 50))] for _ in range(n)]
    for col in (pts, polys, lines):
        if rng.random() < 0.3:
            col[int(rng.integers(n))] = None
    decoy = bool(rng.random() < 0.5)
    order = ["polys", "pts", "lines"]
    if rng.random() < 0.5:
        order = ["lines", "polys", "pts"]
    if decoy:
        order.insert(int(rng.integers(0, len(order) + 1)), "geometry")
    cands = [c for c in order[1:] if c != "geometry"]
    active = cands[int(rng.integers(len(cands)))]
    ops = []
    for _ in range(int(rng.integers(1, 8))):
        op = OPS[int(rng.integers(len(OPS)))]
        d = {"op": op, "r": int(rng.integers(2 ** 31))}
        ops.append(d)
    return {"n": n, "pts": pts, "polys": polys, "lines": lines, "mpts": mpts, "order": order,
            "active": active, "ops": ops, "uid": int(rng.integers(2 ** 40)),
            "index_kind": ["default", "named", "string"][int(rng.integers(3))]}


KIND = {"pts": "point", "polys": "polygon", "lines": "line", "geometry": "multipoint"}
BOX = {"pts": (2.5, 8.5, 1.5, 9.5), "polys": (21.5, 27.5, -1.0, 6.5), "lines": (-1.0, 6.5, 21.5, 31.0),
       "geometry": (41.5, 47.5, 39.0, 51.0)}


def build(case):
    from spatialpandas import GeoDataFrame
    n = case["n"]
    data = {"rid": np.arange(n) + case["uid"]}
    src = {"pts": case["pts"], "polys": case["polys"], "lines": case["lines"], "geometry": case["mpts"]}
    for c in case["order"]:
        data[c] = gg.make_array(KIND[c], src[c], "float64")
    data["val"] = np.arange(n)[::-1] * 1.0
    if case["index_kind"] == "default":
        idx = pd.RangeIndex(n)
    elif case["index_kind"] == "named":
        idx = pd.Index(np.arange(n) + 50, name="nm")
    else:
        idx = pd.Index([f"s{i}" for i in range(n)])
    df = GeoDataFrame(data, index=idx)
    return df.set_geometry(case["active"])


def twin(df, act):
    """single-geometry frame holding only the expected column (plus rid)"""
    from spatialpandas import GeoDataFrame
    return GeoDataFrame({"rid": df["rid"].values, act: df[act].array}, index=df.index)


def check_case(ctx, case):
    import dask
    import dask.dataframe as dd
    from spatialpandas import GeoDataFrame, sjoin
    from spatialpandas.geometry import GeometryDtype, PolygonArray
    from spatialpandas.io import read_parquet, read_parquet_dask, to_parquet

    hist = []

    def viol(clause, mech, exp, obs, extra=None):
        w = {"order": case["order"], "active": case["active"], "history": [h["op"] for h in hist]}
        w.update(extra or {})
        ctx.violation(clause, mech, w, expected=exp, observed=obs, case=case)

    def rec_raise(where, e, tb):
        if exc_in_repo(tb) or isinstance(e, (IndexError, KeyError)):
            ctx.violation("raised", f"active-geometry:{where}:{type(e).__name__}",
                          {"order": case["order"], "active": case["active"],
                           "history": [h["op"] for h in hist]}, observed=short_exc(e), case=case,
                          msg=tb[-1500:])
            return True
        raise e

    ok, df, tb = ctx.guarded(build, case)
    if not ok:
        return rec_raise("build", df, tb)
    act = case["active"]
    decoy = "geometry" in case["order"]

    def geo_cols(d):
        return [c for c in d.columns if isinstance(d[c].dtype, GeometryDtype)]

    def check_state(d, where, expect_act):
        """d must be a GeoDataFrame with active geometry expect_act."""
        ctx.count("state_checks")
        ctx.sig(where, "decoy" if decoy else "-", f"ngeo{len(geo_cols(d)) if hasattr(d, 'columns') else 0}")
        if type(d).__name__ != "GeoDataFrame":
            viol("type", f"active-geometry:{where}:not-geo-frame", "GeoDataFrame", type(d).__name__)
            return False
        ok_, name, tb_ = ctx.guarded(lambda: d.geometry.name)
        if not ok_:
            viol("active-lost", f"active-geometry:{where}:no-active-geometry:{'decoy' if decoy else 'nodecoy'}",
                 expect_act, short_exc(name))
            return False
        if name != expect_act:
            viol("active-changed", f"active-geometry:{where}:wrong-column:{'decoy' if decoy else 'nodecoy'}",
                 expect_act, name)
            return False
        return True

    def spatial_checks(d, a):
        """spatial operations of d use column a"""
        if len(d) == 0:
            return
        t = twin(d, a)
        x0, x1, y0, y1 = BOX[a]
        for indexed in (False, True):
            ok_, r, tb_ = ctx.guarded(lambda: ((d.build_sindex(page_size=2) if indexed else d)
                                               .cx[x0:x1, y0:y1]["rid"].tolist(),
                                               t.cx[x0:x1, y0:y1]["rid"].tolist()))
            if not ok_:
                rec_raise("cx", r, tb_)
                continue
            ctx.count("spatial_checks")
            if r[0] != r[1]:
                viol("spatial-op-wrong-column", f"active-geometry:cx{'-indexed' if indexed else ''}",
                     r[1], r[0])
        if KIND[a] == "point":
            right = GeoDataFrame({"w": [1, 2], "sq": PolygonArray(
                [[[0, 0, 6, 0, 6, 6, 0, 6, 0, 0]], [[4, 4, 11, 4, 11, 11, 4, 11, 4, 4]]], dtype="float64")})
            ok_, r, tb_ = ctx.guarded(lambda: (
                sorted(zip(sjoin(d, right)["rid"].tolist(), sjoin(d, right)["w"].tolist())),
                sorted(zip(sjoin(t, right)["rid"].tolist(), sjoin(t, right)["w"].tolist()))))
            if not ok_:
                rec_raise("sjoin", r, tb_)
            else:
                ctx.count("spatial_checks")
                if r[0] != r[1]:
                    viol("spatial-op-wrong-column", "active-geometry:sjoin", r[1][:10], r[0][:10])

    def dask_checks(d, a, npart, rseed):
        ddf = dd.from_pandas(d, npartitions=npart)
        t = twin(d, a)
        x0, x1, y0, y1 = BOX[a]
        with dask.config.set(scheduler="synchronous"):
            ok_, r, tb_ = ctx.guarded(lambda: (
                ddf.geometry.name,
                ddf.map_partitions(lambda p_: pd.Series([p_.geometry.name]), meta=pd.Series([""])).compute().tolist(),
                ddf.compute(),
                sorted(ddf.cx[x0:x1, y0:y1].compute()["rid"].tolist()),
                np.asarray(ddf.geometry.total_bounds, dtype=float).tolist(),
                ddf.geometry.partition_bounds.values.tolist(),
            ))
        if not ok_:
            return rec_raise("dask", r, tb_)
        name, part_names, comp, cxr, tbd, pb = r
        ctx.count("state_checks")
        if name != a:
            viol("active-changed", "active-geometry:dask-collection", a, name)
        if any(p_ != a for p_ in part_names):
            viol("active-changed", f"active-geometry:dask-partitions:{'decoy' if decoy else 'nodecoy'}",
                 a, part_names)
        check_state(comp, f"dask-compute-np{min(npart, 2)}", a)
        ctx.count("spatial_checks")
        exp_cx = sorted(t.cx[x0:x1, y0:y1]["rid"].tolist())
        if cxr != exp_cx:
            viol("spatial-op-wrong-column", "active-geometry:dask-cx", exp_cx, cxr)
        etb = np.asarray(t[a].array.total_bounds, dtype=float).tolist()
        if not all((x != x and y != y) or x == y for x, y in zip(tbd, etb)):
            viol("spatial-op-wrong-column", "active-geometry:dask-total_bounds", etb, tbd)
        # a selection that hits no partition at all is still a frame with this active geometry
        with dask.config.set(scheduler="synchronous"):
            ok_, rn, tb_ = ctx.guarded(lambda: (lambda q_: (
                q_.geometry.name, q_.compute(),
                [p_.geometry.name for p_ in dask.compute(*q_.to_delayed())]))(ddf.cx[10 ** 7:10 ** 7 + 1, 10 ** 7:10 ** 7 + 1]))
        if not ok_:
            rec_raise("dask-cx-no-partition", rn, tb_)
        else:
            ctx.count("state_checks")
            if rn[0] != a or any(x != a for x in rn[2]) or len(rn[1]) != 0:
                viol("active-changed", "active-geometry:dask-cx-hitting-no-partition", [a, 0],
                     [rn[0], rn[2], len(rn[1])])
            else:
                check_state(rn[1], "dask-cx-no-partition-compute", a)
        # build_sindex keeps the active geometry of the collection and of its partitions
        with dask.config.set(scheduler="synchronous"):
            ok_, rb, tb_ = ctx.guarded(lambda: (lambda b_: (
                b_.geometry.name,
                b_.map_partitions(lambda p_: pd.Series([p_.geometry.name]), meta=pd.Series([""])).compute().tolist(),
                sorted(b_.cx[x0:x1, y0:y1].compute()["rid"].tolist())))(ddf.build_sindex(page_size=2)))
        if not ok_:
            rec_raise("dask-build_sindex", rb, tb_)
        else:
            ctx.count("state_checks")
            ctx.sig("dask-build_sindex")
            if rb[0] != a or any(x != a for x in rb[1]) or rb[2] != exp_cx:
                viol("active-changed", "active-geometry:dask-build_sindex", [a, exp_cx], list(rb))
        # deriving a frame with another active geometry must not alter the (persisted) original
        others = [c for c in geo_cols(d) if c != a]
        if others:
            with dask.config.set(scheduler="synchronous"):
                ok_, r2, tb_ = ctx.guarded(lambda: (lambda pd_: (
                    pd_.set_geometry(others[0]).compute().geometry.name,
                    pd_.map_partitions(lambda p_: pd.Series([p_.geometry.name]), meta=pd.Series([""])).compute().tolist(),
                    sorted(pd_.cx[x0:x1, y0:y1].compute()["rid"].tolist())))(ddf.persist()))
            if not ok_:
                rec_raise("dask-persist-set_geometry", r2, tb_)
            else:
                ctx.count("state_checks")
                ctx.sig("dask-persist-set_geometry")
                if r2[0] != others[0]:
                    viol("active-changed", "active-geometry:dask-set_geometry-result", others[0], r2[0])
                if any(x != a for x in r2[1]) or r2[2] != exp_cx:
                    viol("active-changed", "active-geometry:derived-frame-alters-persisted-original",
                         [a, exp_cx], [r2[1], r2[2]])
        # a second collection made from the same rows with another active column, while the first one
        # is alive: each keeps its own active geometry
        if others:
            d2 = d.set_geometry(others[0])
            bx = BOX[others[0]]
            with dask.config.set(scheduler="synchronous"):
                ok_, r3, tb_ = ctx.guarded(lambda: (lambda o_: (
                    o_.geometry.name, ddf.geometry.name,
                    [p_.geometry.name for p_ in dask.compute(*o_.to_delayed())],
                    [p_.geometry.name for p_ in dask.compute(*ddf.to_delayed())],
                    sorted(o_.cx[bx[0]:bx[1], bx[2]:bx[3]].compute()["rid"].tolist()),
                    [f_.geometry.name for f_ in dask.compute(ddf, o_)]))(dd.from_pandas(d2, npartitions=npart)))
            if not ok_:
                rec_raise("dask-sibling-collection", r3, tb_)
            else:
                ctx.count("state_checks")
                ctx.sig("dask-sibling-collection")
                o2 = others[0]
                exp3 = [o2, a, [o2] * len(r3[2]), [a] * len(r3[3]),
                        sorted(twin(d2, o2).cx[bx[0]:bx[1], bx[2]:bx[3]]["rid"].tolist()), [a, o2]]
                if list(r3) != exp3:
                    viol("active-changed", "active-geometry:sibling-collection-of-same-rows-shares-active-column",
                         exp3, list(r3))
        # Hilbert packing uses the active column
        with dask.config.set(scheduler="synchronous"):
            ok_, pk, tb_ = ctx.guarded(lambda: ddf.pack_partitions(npartitions=2, p=8,
                                                                   shuffle=["tasks", "disk"][rseed % 2]).compute())
        if ok_:
            check_state(pk, f"dask-pack-{['tasks', 'disk'][rseed % 2]}-compute", a)
            ctx.count("spatial_checks")
            ehd = dict(zip(t["rid"].tolist(), t[a].array.hilbert_distance(list(etb), p=8).tolist())) \
                if etb[0] == etb[0] else None
            if ehd is not None:
                got = dict(zip(pk["rid"].tolist(), pk.index.tolist()))
                if got != ehd:
                    viol("spatial-op-wrong-column", "active-geometry:pack_partitions", ehd, got)
        else:
            ctx.count("pack_raised")

    if not check_state(df, "initial", act):
        return
    spatial_checks(df, act)
    for d in case["ops"]:
        op = d["op"]
        r = np.random.default_rng(d["r"])
        n = len(df)
        hist.append(d)
        resync = False
        expect_plain = False
        try:
            if op == "iloc":
                k = sorted(set(int(v) for v in r.integers(0, max(n, 1), 4))) if n else []
                new = df.iloc[k]
            elif op == "loc":
                lab = [df.index[int(v)] for v in r.integers(0, n, 3)] if n else []
                new = df.loc[lab]
            elif op == "mask":
                new = df[r.random(n) < 0.7]
            elif op == "head":
                new = df.head(int(r.integers(0, n + 1)))
            elif op == "sort":
                new = df.sort_values("val") if r.random() < 0.5 else df.sort_index(ascending=False)
            elif op == "copy":
                new = df.copy()
            elif op == "set_geometry_alias":
                # a frame derived with set_geometry(<same column>) is a different frame: changing its
                # active geometry in place must not reach back into the original
                others_ = [c for c in geo_cols(df) if c != act]
                h = df.set_geometry(act)
                if others_:
                    h.set_geometry(others_[0], inplace=True)
                    if h.geometry.name != others_[0]:
                        viol("active-changed", "active-geometry:set_geometry-inplace-ignored", others_[0],
                             h.geometry.name)
                new = df
            elif op == "reconstruct":
                new = GeoDataFrame(df)                      # a geo frame built from a geo frame
            elif op == "subset_with":
                others = [c for c in df.columns if c != act and r.random() < 0.5]
                cols = others + [act]
                cols = [c for c in df.columns if c in cols] if r.random() < 0.5 else cols
                cols = [c for c in cols if c not in ("rid", "val")]
                new = df[["rid"] + cols + ["val"]]
            elif op == "subset_without_active":
                cols = [c for c in df.columns if c != act]
                new = df[cols]
                resync = True
            elif op == "subset_plain":
                new = df[["rid", "val"]]
                expect_plain = True
            elif op == "cx":
                x0, x1, y0, y1 = BOX[act]
                new = df.cx[x0 - 3:x1 + 3, y0 - 3:y1 + 3]
            elif op == "pickle":
                new = pickle.loads(pickle.dumps(df))
            elif op == "concat":
                k = int(r.integers(0, n + 1))
                new = pd.concat([df.iloc[:k], df.iloc[k:]]) if r.random() < 0.6 else pd.concat([df, df.iloc[:1]])
                # probe: every input empty (the result has no rows but is still a frame of this kind)
                if not check_state(pd.concat([df.iloc[:0], df.iloc[:0]] + ([df.iloc[:0]] if k % 2 else [])),
                                   "concat-of-empty-frames", act):
                    return
            elif op == "set_geometry":
                cands = [c for c in geo_cols(df)]
                a2 = cands[int(r.integers(len(cands)))]
                new = df.set_geometry(a2)
                act = a2
            elif op == "dask":
                npart = int(r.integers(1, 5))
                with dask.config.set(scheduler="synchronous"):
                    new = dd.from_pandas(df, npartitions=max(1, min(npart, max(n, 1)))).compute()
            elif op == "parquet":
                path = os.path.join(ctx.scratch, f"c20-{d['r']}.parq")
                cands = geo_cols(df)
                a2 = cands[int(r.integers(len(cands)))]
                with dask.config.set(scheduler="synchronous"):
                    dd.from_pandas(df, npartitions=max(1, min(3, n))).to_parquet(path)
                    ddf2 = read_parquet_dask(path, geometry=a2)
                    names = ddf2.map_partitions(lambda p_: pd.Series([p_.geometry.name]),
                                                meta=pd.Series([""])).compute().tolist()
                    new = ddf2.compute()
                    # two frames over the same dataset with different active geometries,
                    # materialised in ONE compute, must not influence each other
                    others = [c for c in cands if c != a2]
                    if others:
                        r1, r3 = read_parquet_dask(path, geometry=a2), read_parquet_dask(path, geometry=others[0])
                        c1, c3 = dask.compute(r1, r3)
                        n1 = [c1.geometry.name if c1._has_valid_geometry() else None,
                              c3.geometry.name if c3._has_valid_geometry() else None]
                        ctx.count("state_checks")
                        ctx.sig("parquet-joint-compute")
                        if n1 != [a2, others[0]]:
                            viol("active-changed", "active-geometry:read_parquet_dask-joint-compute",
                                 [a2, others[0]], n1)
                    # two datasets that store the columns in different orders, read in one call
                    if len(cands) >= 2 and n:
                        path_b = path + ".b"
                        dd.from_pandas(df[list(df.columns)[::-1]], npartitions=max(1, min(2, n))).to_parquet(path_b)
                        for a3 in cands:
                            rr = read_parquet_dask([path, path_b], geometry=a3)
                            nm = [rr.geometry.name] + [p_.geometry.name if p_._has_valid_geometry() else None
                                                       for p_ in dask.compute(*rr.to_delayed())]
                            cc = rr.compute()
                            nm.append(cc.geometry.name if cc._has_valid_geometry() else None)
                            ctx.count("state_checks")
                            ctx.sig("parquet-two-column-orders")
                            if any(x != a3 for x in nm):
                                viol("active-changed", "active-geometry:read_parquet_dask-datasets-with-different-column-order",
                                     a3, nm)
                        import shutil as _sh
                        _sh.rmtree(path_b, ignore_errors=True)
                import shutil
                shutil.rmtree(path, ignore_errors=True)
                ctx.count("state_checks")
                if ddf2.geometry.name != a2:
                    viol("active-changed", "active-geometry:read_parquet_dask-collection", a2,
                         ddf2.geometry.name)
                if any(x != a2 for x in names):
                    viol("active-changed", "active-geometry:read_parquet_dask-partitions", a2, names)
                act = a2
            elif op == "dask_ops":
                if n:
                    dask_checks(df, act, int(r.integers(1, 4)), d["r"])
                continue
            else:
                continue
        except Exception as e:  # noqa: BLE001
            import traceback
            if rec_raise(f"op-{op}", e, traceback.format_exc()):
                return
            raise
        if expect_plain:
            ctx.count("state_checks")
            ctx.sig("subset_plain")
            if type(new) is not pd.DataFrame:
                viol("type", "active-geometry:plain-result-not-plain-frame", "DataFrame", type(new).__name__)
            return
        if resync:
            # the statement does not say which column becomes active: re-synchronise or stop
            ctx.sig("subset_without_active")
            if type(new).__name__ != "GeoDataFrame":
                return
            ok_, name, tb_ = ctx.guarded(lambda: new.geometry.name)
            if not ok_:
                return
            act = name
            df = new
            continue
        ctx.case([case["order"], case["active"], case["n"], [h["op"] for h in hist]],
                 nontrivial=len(new) > 0)
        if not check_state(new, op, act):
            return
        df = new
        spatial_checks(df, act)
    if len(ctx.samples) < 4:
        ctx.sample({"columns": case["order"], "active": case["active"],
                    "history": [h["op"] for h in case["ops"]], "final_active": act})


def run(ctx, spec):
    for _ in range(spec["params"]["cases"]):
        check_case(ctx, gen_case(ctx.rng))


def replay(ctx, v):
    check_case(ctx, v["case"])
