"""C05 - spatial join returns exactly the intersecting (left, right) pairs.

Monitor on the real sjoin (pandas x pandas): the result, as a multiset of complete rows
(index label + every column, geometry read back with to_pylist), is compared with a
nested-loop reference join that uses the exact C02 oracle; pairs whose point lies exactly
on a polygon ring are "don't care" (0 or 1 times)."""
from collections import Counter

import numpy as np
import pandas as pd

from .. import arrays as A
from .. import gen_geom as gg
from .. import oracle_geom as og
from ..ctx import exc_in_repo, short_exc, stable_hash

RULE = ("cases = (left point frame, right frame of any geometry kind, how, suffixes): left frames "
        "with duplicate and missing points, default / named / string / non-unique index and columns "
        "clashing with the right frame; right frames with overlapping polygons (one point matches "
        "many), shapes matching nothing, empty frame on either side; rows compared as a multiset "
        "of complete rows; non-trivial = at least one matching pair; distinct = hash of (frames, "
        "how, suffixes)")
ASSUMPTIONS = ["exactness domain as in C02; result row order and column order are not compared",
               "numeric values are compared as floats (pandas turns integer columns with missing "
               "values into floats), missing as NaN"]
USE_CONTRACTS = True      # in-situ icontract monitors (vmon/contracts.py)
SPLIT_KINDS = True         # thorough tier: one shard per geometry kind
DECIDING_COUNTERS = ["joins_checked"]

RIGHT_KINDS = ["polygon", "multipolygon", "line", "multiline", "point", "multipoint"]


def shards(tier, seed):
    n = 80 if tier == "quick" else 900
    subs = [("float64", "float64"), ("int64", "float64")] + (
        [("int32", "float64"), ("float64", "int32"), ("float32", "float32"), ("int16", "float32")]
        if tier == "thorough" else [[("int32", "float64")], [("float64", "int16")], [("float32", "float32")]][seed % 3])
    out = []
    for kinds in (["polygon", "multipolygon"], ["line", "multiline", "point", "multipoint"]):
        for b in ("J", "B"):
            out.append({"name": f"{'+'.join(kinds)}-{b}", "build": b,
                        "params": {"kinds": kinds, "combos": subs, "cases": n if b == "J" else n // 2}})
    return out


def gen_case(rng, rkind, pt_sub, sh_sub):
    G = 6
    nl = int(rng.choice([0, 1, 5, 9, 14, 25, 40]))
    if rng.random() < 0.06:
        nl = int(rng.choice([600, 1300]))          # an index of several pages and levels on the left frame
    nr = int(rng.choice([0, 1, 2, 3, 5, 8, 8]))
    integer_pts = not pt_sub.startswith("float")
    # right shapes: overlapping on purpose
    shapes = []
    for _ in range(nr):
        r = rng.random()
        if rkind in ("polygon", "multipolygon") and r < 0.5:
            x0, y0 = int(rng.integers(0, G)), int(rng.integers(0, G))
            w, h = int(rng.integers(1, G + 4)), int(rng.integers(1, G + 4))
            ring = gg.flat([(x0, y0), (x0 + w, y0), (x0 + w, y0 + h), (x0, y0 + h), (x0, y0)])
            if rng.random() < 0.5:
                ring = gg.flat(og.pts_of(ring)[::-1])
            shapes.append([ring] if rkind == "polygon" else [[ring]])
        elif r < 0.6:
            e = gg.rand_element(rng, rkind, 2)
            shapes.append(gg.transform(e, rkind, 1, 50, 50))            # matches nothing
        else:
            shapes.append(gg.rand_element(rng, rkind, G))
    if nr and rkind in ("polygon", "multipolygon") and rng.random() < 0.3:
        # a shape whose bounding box covers every left point but which holds only some of them
        if rng.random() < 0.5:
            big = [gg.flat([(-6, -6), (50, -6), (-6, 50), (-6, -6)])]                     # big triangle
        else:
            big = [gg.flat([(-6, -6), (40, -6), (40, 40), (-6, 40), (-6, -6)]),
                   gg.flat([(2, 2), (2, 9), (9, 9), (9, 2), (2, 2)])]                     # square, big hole
        shapes[int(rng.integers(nr))] = big if rkind == "polygon" else [big]
    if nr and sh_sub.startswith("float") and rng.random() < 0.4:
        # fractional shape coordinates (exact halves): a lossy cast to an integer point type shows
        shapes = [None if s_ is None else gg.transform(s_, rkind, 1, 0.5, 0.5) for s_ in shapes]
    if nr and rng.random() < 0.15:
        shapes[int(rng.integers(nr))] = None                               # missing shape
    # points: half grid (+quarter offsets for polygon kinds on float subtypes), duplicates, missing
    pts = []
    for _ in range(nl):
        if integer_pts:
            p = [int(rng.integers(-1, G + 8)), int(rng.integers(-1, G + 8))]
        else:
            p = [int(rng.integers(-2, 2 * G + 16)) / 2.0, int(rng.integers(-2, 2 * G + 16)) / 2.0]
            if rkind in ("polygon", "multipolygon") and rng.random() < 0.5:
                p = [p[0] + 0.25, p[1] + 0.25]
        pts.append(p)
    if nl > 2 and rng.random() < 0.5:
        pts[1] = list(pts[0])
    for _ in range(int(rng.integers(0, 3))):
        if nl:
            pts[int(rng.integers(nl))] = None
    negzero = None
    if nl and nr and pt_sub.startswith("float") and sh_sub.startswith("float") and rng.random() < 0.15:
        # a right vertex at the origin, a left point on it, and zeros stored as -0.0 on one side
        k_ = next((i for i, s_ in enumerate(shapes) if s_ is not None and gg.coords_of(rkind, s_)), None)
        if k_ is not None:
            c_ = gg.coords_of(rkind, shapes[k_])
            vx, vy = c_[0], c_[1]
            shapes = [None if s_ is None else gg.transform(s_, rkind, 1, -vx, -vy) for s_ in shapes]
            pts = [None if p_ is None else [p_[0] - vx, p_[1] - vy] for p_ in pts]
            pts[int(rng.integers(nl))] = [0.0, 0.0]
            negzero = ["points", "shapes"][int(rng.integers(2))]
            if negzero == "points":
                pts = [None if p_ is None else [-0.0 if v == 0 else v for v in p_] for p_ in pts]
            else:
                shapes = [_negzero(s_) for s_ in shapes]
    lik = ["default", "named", "string", "nonunique", "range-offset", "range-step"][int(rng.integers(6))]
    rik = ["default", "named", "string", "range-offset", "range-step"][int(rng.integers(5))]
    clash = bool(rng.random() < 0.6)
    how = ["inner", "left", "right"][int(rng.integers(3))]
    suffixes = [["left", "right"], ["l", "r"], ["A", "B"]][int(rng.integers(3))]
    return {"rkind": rkind, "pt_sub": pt_sub, "sh_sub": sh_sub, "points": pts, "shapes": shapes,
            "left_index": lik, "right_index": rik, "clash": clash, "how": how,
            "suffixes": suffixes, "seed": int(rng.integers(2 ** 31)),
            "same_geom_name": bool(rng.random() < 0.3), "negzero": negzero,
            "reserved": ([["L", "_key_left"], ["R", "_key_right"], ["L", "_key_right"], ["R", "_key_left"]]
                         [int(rng.integers(4))] if rng.random() < 0.06 else None)}


def _negzero(e):
    if e is None:
        return None
    if isinstance(e, (list, tuple)):
        return [_negzero(v) for v in e]
    return -0.0 if e == 0 else e


def make_idx(kind, n, seed, name):
    rng = np.random.default_rng(seed)
    if kind == "default":
        return pd.RangeIndex(n)
    if kind == "range-offset":
        return pd.RangeIndex(3, 3 + n)               # what df.iloc[3:] of a default frame carries
    if kind == "range-step":
        return pd.RangeIndex(0, 2 * n, 2)            # what df[::2] carries
    if kind == "named":
        return pd.Index(np.arange(n) * 2 + 7, name=name)
    if kind == "string":
        return pd.Index([f"{name}{i}" for i in range(n)])
    return pd.Index(rng.integers(0, max(1, n // 2) + 1, n), name=name)


def build_frames(case):
    from spatialpandas import GeoDataFrame
    nl, nr = len(case["points"]), len(case["shapes"])
    pa_ = A.hostile_points(case["points"], case["pt_sub"], fill=(3, 3)) if nl else \
        gg.make_array("point", [], case["pt_sub"])
    sa = gg.make_array(case["rkind"], case["shapes"], case["sh_sub"])
    lgeom = "geometry" if case["same_geom_name"] else "pts"
    rgeom = "geometry" if case["same_geom_name"] else "shape"
    ldata = {"a": np.arange(nl) + 10, lgeom: pa_, "ltxt": [f"L{i}" for i in range(nl)]}
    rdata = {"w": np.arange(nr) * 1.5, rgeom: sa, "rtxt": [f"R{i}" for i in range(nr)]}
    if case.get("reserved"):
        (ldata if case["reserved"][0] == "L" else rdata)[case["reserved"][1]] = \
            np.arange(nl if case["reserved"][0] == "L" else nr) + 50
    if case["clash"]:
        ldata["val"] = np.arange(nl) * 2
        rdata["val"] = np.arange(nr) + 100
        rdata["a"] = np.arange(nr) - 5
    left = GeoDataFrame(ldata, index=make_idx(case["left_index"], nl, case["seed"], "lid"))
    right = GeoDataFrame(rdata, index=make_idx(case["right_index"], nr, case["seed"] + 1, "rid"))
    return left, right, lgeom, rgeom


def canon(v):
    if v is None or v is pd.NA:
        return "NaN"
    if isinstance(v, (float, np.floating)):
        return "NaN" if v != v else float(v)
    if isinstance(v, (int, np.integer)) and not isinstance(v, bool):
        return float(v)
    if isinstance(v, (list, tuple)):
        return [canon(x) for x in v]
    return v


def result_rows(df):
    from spatialpandas.geometry import GeometryDtype
    cols = {}
    for c in df.columns:
        s = df[c]
        if isinstance(s.dtype, GeometryDtype):
            cols[c] = [("geom", stable_hash(canon(v))) for v in gg.pylist(s.array)]
        else:
            cols[c] = [canon(v) for v in s.tolist()]
    idx = [canon(v) for v in df.index.tolist()]
    out = []
    for i in range(len(df)):
        out.append((idx[i], tuple(sorted((str(c), _h(cols[c][i])) for c in cols))))
    return out


def _h(v):
    return v if isinstance(v, (str, float, tuple)) else str(v)


def _exact4(kind, el):
    """element scaled by 4 in exact arithmetic (quarter-grid coordinates become integers)"""
    f = lambda fl: [og.to_exact(v * 4) for v in fl]          # noqa: E731
    n = gg.nesting(kind)
    if n == 0:
        return f(el)
    if n == 1:
        return [f(p_) for p_ in el]
    return [[f(r_) for r_ in p_] for p_ in el]


def check_case(ctx, case):
    from spatialpandas import sjoin
    rkind, how = case["rkind"], case["how"]
    ls, rs = case["suffixes"]

    def rec_raise(where, e, tb):
        if exc_in_repo(tb) or isinstance(e, (IndexError, KeyError)):
            nl, nr = len(case["points"]), len(case["shapes"])
            flags = ("left-empty" if nl == 0 else "") + ("right-empty" if nr == 0 else "") + \
                    ("+missing-shape" if any(s is None for s in case["shapes"]) else "") + \
                    ("+missing-point" if any(p is None for p in case["points"]) else "")
            ctx.violation("raised", f"sjoin:{where}:{how}:{flags or 'plain'}:{type(e).__name__}",
                          {"rkind": rkind, "how": how, "nl": nl, "nr": nr},
                          observed=short_exc(e), case=case, msg=tb[-1500:])
            return True
        raise e

    ok, r, tb = ctx.guarded(build_frames, case)
    if not ok:
        return rec_raise("build", r, tb)
    left, right, lgeom, rgeom = r
    pts = gg.pylist(left[lgeom].array)
    shapes = gg.pylist(right[rgeom].array)
    nl, nr = len(pts), len(shapes)
    # exact pair classification
    pairs, dontcare = [], set()
    for j, sh in enumerate(shapes):
        if sh is None or not gg.coords_of(rkind, sh):
            continue
        sh2 = _exact4(rkind, sh)
        for i, p in enumerate(pts):
            if p is None:
                continue
            c = og.point_vs_shape(rkind, sh2, (og.to_exact(p[0] * 4), og.to_exact(p[1] * 4)))
            if c == "bd":
                dontcare.add((i, j))
            elif c:
                pairs.append((i, j))
    ok, got, tb = ctx.guarded(lambda: sjoin(left, right, how=how, lsuffix=ls, rsuffix=rs))
    if not ok and case.get("reserved") and isinstance(got, ValueError) and "_key_" in str(got):
        ctx.count("rejected_reserved_column_name")      # refusing loudly is fine
        return
    if not ok:
        return rec_raise("call", got, tb)
    ctx.count("joins_checked")
    lrec = {c: [canon(v) for v in left[c].tolist()] for c in left.columns if c != lgeom}
    rrec = {c: [canon(v) for v in right[c].tolist()] for c in right.columns if c != rgeom}
    lg = [("geom", stable_hash(canon(v))) for v in pts]
    rg = [("geom", stable_hash(canon(v))) for v in shapes]
    lidx = [canon(v) for v in left.index.tolist()]
    ridx = [canon(v) for v in right.index.tolist()]
    lcols = [c for c in left.columns if c != lgeom]
    rcols = [c for c in right.columns if c != rgeom]
    clash = set(lcols) & set(rcols)

    def lname(c):
        return f"{c}_{ls}" if c in clash else c

    def rname(c):
        return f"{c}_{rs}" if c in clash else c

    def row(i, j):
        d = {}
        for c in lcols:
            d[lname(c)] = lrec[c][i] if i is not None else "NaN"
        for c in rcols:
            d[rname(c)] = rrec[c][j] if j is not None else "NaN"
        if how in ("inner", "left"):
            d[lgeom] = lg[i]
            d[f"index_{rs}"] = ridx[j] if j is not None else "NaN"
            idx = lidx[i]
        else:
            d[rgeom] = rg[j]
            d[f"index_{ls}"] = lidx[i] if i is not None else "NaN"
            idx = ridx[j]
        return (idx, tuple(sorted((str(k), _h(v)) for k, v in d.items())))

    exp = Counter()
    maybe = Counter()
    for i, j in pairs:
        exp[row(i, j)] += 1
    for i, j in dontcare:
        maybe[row(i, j)] += 1
    matched_l = {i for i, _ in pairs}
    matched_r = {j for _, j in pairs}
    if how == "left":
        for i in range(nl):
            if i not in matched_l:
                (maybe if any(a == i for a, _ in dontcare) else exp)[row(i, None)] += 1
    if how == "right":
        for j in range(nr):
            if j not in matched_r:
                (maybe if any(b == j for _, b in dontcare) else exp)[row(None, j)] += 1
    gotc = Counter(result_rows(got))
    missing = exp - gotc
    extra = gotc - exp
    extra_bad = extra - maybe
    many = len(pairs) > len(matched_l)
    ctx.sig(rkind, how, "many" if many else "-", "unmatched-left" if len(matched_l) < nl else "-",
            "unmatched-right" if len(matched_r) < nr else "-",
            "missing-left" if any(p is None for p in pts) else "-",
            "L0" if nl == 0 else "-", "R0" if nr == 0 else "-", "clash" if clash else "-",
            case["left_index"], case["right_index"])
    if case.get("negzero"):
        ctx.count(f"signed_zero_cases:{case['negzero']}")
    ctx.case([case["points"], case["shapes"], rkind, how, case["suffixes"], case["clash"],
              case["left_index"], case["right_index"]], nontrivial=len(pairs) > 0)
    w = {"rkind": rkind, "how": how, "suffixes": case["suffixes"], "nl": nl, "nr": nr,
         "left_index": case["left_index"], "right_index": case["right_index"],
         "pairs": pairs[:30], "points": pts if nl <= 12 else nl, "shapes": shapes if nr <= 4 else nr}
    flags = ("many" if many else "one") + (":missing-left" if any(p is None for p in pts) else "") + \
            (":empty-side" if (nl == 0 or nr == 0) else "") + (":clash" if clash else "")
    if missing:
        ctx.violation("rows-missing", f"sjoin:{how}:row-missing:{flags}", w,
                      expected=[str(k)[:300] for k in list(missing)[:3]],
                      observed=[str(k)[:300] for k in list(extra)[:3]], case=case)
    if extra_bad:
        ctx.violation("rows-extra", f"sjoin:{how}:row-extra-or-duplicated:{flags}", w,
                      expected=[str(k)[:300] for k in list(missing)[:3]],
                      observed=[str(k)[:300] for k in list(extra_bad)[:3]], case=case)
    exp_name = left.index.name if how in ("inner", "left") else right.index.name
    if got.index.name != exp_name:
        ctx.violation("index-name", f"sjoin:{how}:index-name-lost", w, expected=exp_name,
                      observed=got.index.name, case=case)
    if type(got).__name__ != "GeoDataFrame":
        ctx.violation("type", f"sjoin:{how}:not-geo-frame", w, observed=type(got).__name__, case=case)
    else:
        egeom = lgeom if how in ("inner", "left") else rgeom
        ok, gname, tb = ctx.guarded(lambda: got.geometry.name)
        if ok and gname != egeom:
            ctx.violation("geometry", f"sjoin:{how}:active-geometry", w, expected=egeom,
                          observed=gname, case=case)
    if len(ctx.samples) < 4 and pairs and nl <= 9:
        ctx.sample({"right_kind": rkind, "how": how, "points": pts, "shapes": shapes[:3],
                    "matching_pairs": pairs[:10], "result_rows": len(got)})


def run(ctx, spec):
    p = spec["params"]
    for rkind in p["kinds"]:
        for pt_sub, sh_sub in p["combos"]:
            for _ in range(p["cases"]):
                check_case(ctx, gen_case(ctx.rng, rkind, pt_sub, sh_sub))


def replay(ctx, v):
    check_case(ctx, v["case"])
