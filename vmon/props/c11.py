"""C11 - parquet round trips are lossless for every geometry type.

Round-trip ledger: before a write the monitor stores a deep snapshot of the frame (per-column
to_pylist, dtypes, index values and name); what a read returns is compared with the ledger
entry (with the projection / concatenation applied to the snapshot)."""
import os
import shutil

import numpy as np
import pandas as pd

from .. import arrays as A
from .. import gen_frames as gf
from .. import gen_geom as gg
from ..ctx import exc_in_repo, short_exc

RULE = ("cases = (frame with 1-3 geometry columns of any kind x subtype built from unconstrained "
        "elements (missing, every empty form, NaN/inf) directly / sliced / concatenated / taken, "
        "index kind in {default, named, string, non-unique, shuffled, hilbert_distance}, "
        "compression in {snappy, gzip, None}, route in {pandas to_parquet/read_parquet, Dask "
        "to_parquet/read_parquet_dask with 1..13 partitions}, column projection, list / glob of two "
        "datasets); one evaluation = one written-and-read dataset; non-trivial = >= 1 non-missing "
        "geometry; distinct = hash of (frame, route, options)")
ASSUMPTIONS = ["for the Dask route the reference is ddf.compute() before writing (from_pandas may sort)",
               "pyarrow to_pylist is a faithful independent read-back"]
SPLIT_KINDS = True         # thorough tier: one shard per geometry kind
DECIDING_COUNTERS = ["roundtrips_checked"]


def shards(tier, seed):
    subs = A.pick_subtypes(tier, seed, n_quick=3)
    n = 25 if tier == "quick" else 350
    out = []
    kinds = gg.KINDS
    for grp in (kinds[:2], kinds[2:5], kinds[5:]):
        for b in ("J", "B"):
            out.append({"name": f"{'+'.join(grp)}-{b}", "build": b,
                        "params": {"kinds": grp, "subtypes": subs, "cases": n if b == "J" else n // 2}})
    return out


def gen_case(rng, kind, subtype):
    n = int(rng.choice([0, 1, 2, 5, 9, 14, 26]))
    cols = [("g_" + kind, kind, subtype, [gg.soup_element(rng, kind, subtype) for _ in range(n)])]
    for _ in range(int(rng.integers(0, 3))):
        k2 = gg.KINDS[int(rng.integers(7))]
        s2 = gg.SUBTYPES[int(rng.integers(5))]
        nm = f"x{len(cols)}_{k2}"
        cols.append((nm, k2, s2, [gg.soup_element(rng, k2, s2) for _ in range(n)]))
    if rng.random() < 0.5:
        cols = cols[::-1]
    route = "dask" if rng.random() < 0.55 else "pandas"
    ik = ["default", "named", "string", "nonunique", "shuffled-int", "hilbert", "sorted-ties"][int(rng.integers(7))]
    spec = gf.frame_spec(rng, cols, n, ik if ik != "hilbert" else "default")
    proj = None
    if rng.random() < 0.4:
        names = [c[0] for c in cols] + ["rid", "val", "txt", "chk"]
        k = int(rng.integers(1, len(names)))
        proj = [names[i] for i in rng.permutation(len(names))[:k]]
        if not any(p_ in [c[0] for c in cols] for p_ in proj):
            proj.append(cols[0][0])
    return {"spec": spec, "kind": kind, "subtype": subtype, "route": route, "index_kind": ik,
            "compression": ["snappy", "gzip", None][int(rng.integers(3))],
            "npartitions": int(rng.choice([1, 2, 3, 5, 12, 13])), "projection": proj,
            "forms": [["direct", "sliced", "concat", "take"][int(rng.integers(4))] for _ in cols],
            "multi": ["none", "list", "glob"][int(rng.integers(3))] if route == "dask" else "none",
            "seed": int(rng.integers(2 ** 31))}


def build(case):
    from spatialpandas import GeoDataFrame
    spec = case["spec"]
    n = spec["n"]
    rng = np.random.default_rng(case["seed"])
    data = {"rid": np.arange(n, dtype=np.int64) + spec["uid"]}
    for c, form in zip(spec["cols"], case["forms"]):
        data[c["name"]] = A.build_form(c["kind"], c["elements"], c["subtype"], form, rng)
    data["val"] = np.arange(n) * 1.5
    data["txt"] = np.array([f"t{i % 4}" for i in range(n)], dtype=object)
    data["chk"] = np.arange(n, dtype=np.int32)[::-1].copy()
    idx = gf.make_index(np.random.default_rng(spec["index_seed"]), n, spec["index_kind"])
    if case["index_kind"] == "hilbert":
        idx = pd.Index(np.sort(rng.integers(0, 1000, n)), name="hilbert_distance")
    return GeoDataFrame(data, index=idx)


def ledger(df):
    from spatialpandas.geometry import GeometryDtype
    cols = {}
    for c in df.columns:
        s = df[c]
        if isinstance(s.dtype, GeometryDtype):
            cols[c] = ("geom", type(s.array).__name__, str(s.dtype), gg.pylist(s.array))
        else:
            cols[c] = ("plain", str(s.dtype), None, s.tolist())
    return {"columns": list(df.columns), "cols": cols, "index": df.index.tolist(),
            "index_name": df.index.name, "n": len(df)}


def compare(ctx, viol, got, led, where, proj=None):
    """got: pandas frame read back; led: ledger (already projected / concatenated)."""
    ok_all = True
    exp_cols = led["columns"] if proj is None else list(proj)
    if type(got).__name__ != "GeoDataFrame":
        viol("type", f"parquet:{where}:not-geo-frame", "GeoDataFrame", type(got).__name__)
        return False
    if list(got.columns) != exp_cols:
        viol("columns", f"parquet:{where}:columns{'-projection' if proj else ''}", exp_cols, list(got.columns))
        return False
    g = ledger(got)
    if g["n"] != led["n"]:
        viol("rows", f"parquet:{where}:row-count", led["n"], g["n"])
        return False
    for c in exp_cols:
        e, o = led["cols"][c], g["cols"][c]
        if e[0] == "geom":
            if o[1] != e[1] or o[2] != e[2]:
                viol("dtype", f"parquet:{where}:geometry-kind-or-subtype", [e[1], e[2]], [o[1], o[2]])
                ok_all = False
                continue
            bad = [i for i, (a, b) in enumerate(zip(e[3], o[3])) if not gg.same_value(a, b)]
            if bad:
                i = bad[0]
                flav = ("missing<->empty" if (e[3][i] is None) != (o[3][i] is None) else "values")
                viol("geometry", f"parquet:{where}:geometry-{flav}", e[3][i], o[3][i])
                ok_all = False
        else:
            same = all((a == b) or (isinstance(a, float) and isinstance(b, float) and a != a and b != b)
                       for a, b in zip(e[3], o[3]))
            if not same:
                viol("columns", f"parquet:{where}:other-column-values", e[3][:10], o[3][:10])
                ok_all = False
            elif e[1] != o[1] and not (e[1] == "object" and o[1] in ("object", "str", "string")):
                viol("dtype", f"parquet:{where}:other-column-dtype", e[1], o[1])
                ok_all = False
    if g["index"] != led["index"]:
        viol("index", f"parquet:{where}:index-values", led["index"][:10], g["index"][:10])
        ok_all = False
    if g["index_name"] != led["index_name"]:
        viol("index", f"parquet:{where}:index-name", led["index_name"], g["index_name"])
        ok_all = False
    return ok_all


def project(led, proj):
    return {**led, "columns": list(proj), "cols": {c: led["cols"][c] for c in proj}}


def concat_ledgers(a, b):
    return {"columns": a["columns"], "index_name": a["index_name"], "n": a["n"] + b["n"],
            "index": a["index"] + b["index"],
            "cols": {c: (a["cols"][c][0], a["cols"][c][1], a["cols"][c][2], a["cols"][c][3] + b["cols"][c][3])
                     for c in a["columns"]}}


def check_case(ctx, case):
    import dask
    import dask.dataframe as dd
    from spatialpandas.io import read_parquet, read_parquet_dask, to_parquet
    kind, subtype, route = case["kind"], case["subtype"], case["route"]
    root = os.path.join(ctx.scratch, f"c11-{case['seed']}")
    shutil.rmtree(root, ignore_errors=True)
    os.makedirs(root)
    w = {"kind": kind, "subtype": subtype, "route": route, "index_kind": case["index_kind"],
         "compression": case["compression"], "npartitions": case["npartitions"],
         "projection": case["projection"], "forms": case["forms"], "multi": case["multi"],
         "columns": [(c["name"], c["kind"], c["subtype"]) for c in case["spec"]["cols"]]}

    def viol(clause, mech, exp=None, obs=None):
        ctx.violation(clause, mech, w, expected=exp, observed=obs, case=case)

    def guarded(where, fn):
        ok, r, tb = ctx.guarded(fn)
        if not ok:
            if exc_in_repo(tb) or "pyarrow" in tb or "dask" in tb:
                n0 = "n0" if case["spec"]["n"] == 0 else "n+"
                ctx.violation("raised", f"parquet:{where}:{route}:{n0}:{type(r).__name__}", w,
                              observed=short_exc(r), case=case, msg=tb[-1500:])
                return None
            raise r
        return r
    try:
        df = guarded("build", lambda: build(case))
        if df is None:
            return
        nontrivial = any(e is not None for c in case["spec"]["cols"] for e in c["elements"])
        proj = case["projection"]
        with dask.config.set(scheduler="synchronous"):
            if route == "pandas":
                path = os.path.join(root, "f.parq")
                led = ledger(df)
                if guarded("to_parquet", lambda: to_parquet(df, path, compression=case["compression"]) or 1) is None:
                    return
                got = guarded("read_parquet", lambda: read_parquet(path))
                if got is None:
                    return
                ctx.count("roundtrips_checked")
                compare(ctx, viol, got, led, "pandas")
                if proj:
                    gp = guarded("read_parquet-columns", lambda: read_parquet(path, columns=list(proj)))
                    if gp is not None:
                        compare(ctx, viol, gp, project(led, proj), "pandas", proj)
            else:
                if len(df) == 0:
                    return
                npart = max(1, min(case["npartitions"], len(df)))
                ddf = dd.from_pandas(df, npartitions=npart)
                ref = ddf.compute()
                led = ledger(ref)
                path = os.path.join(root, "d1.parq")
                if guarded("to_parquet_dask", lambda: ddf.to_parquet(path, compression=case["compression"]) or 1) is None:
                    return
                got = guarded("read_parquet_dask", lambda: read_parquet_dask(path))
                if got is None:
                    return
                if type(got).__name__ != "DaskGeoDataFrame":
                    viol("type", "parquet:dask:not-dask-geo-frame", "DaskGeoDataFrame", type(got).__name__)
                gc = guarded("read_parquet_dask-compute", lambda: got.compute())
                if gc is None:
                    return
                ctx.count("roundtrips_checked")
                compare(ctx, viol, gc, led, "dask")
                if got.npartitions != ddf.npartitions:
                    viol("partitions", "parquet:dask:partition-count", ddf.npartitions, got.npartitions)
                if proj:
                    gp = guarded("read_parquet_dask-columns",
                                 lambda: read_parquet_dask(path, columns=list(proj)).compute())
                    if gp is not None:
                        compare(ctx, viol, gp, project(led, proj), "dask", proj)
                if case["multi"] != "none":
                    # second dataset with more partitions than ten: textual != numeric order
                    df2 = df.iloc[::-1].copy()
                    df2["rid"] = df2["rid"] + 10 ** 6
                    ddf2 = dd.from_pandas(df2, npartitions=max(1, min(len(df2), 12)), sort=False)
                    ref2 = ddf2.compute()
                    p2 = os.path.join(root, "d2.parq")
                    if guarded("to_parquet_dask", lambda: ddf2.to_parquet(p2) or 1) is None:
                        return
                    rev = case["multi"] == "list" and case["seed"] % 2 == 0
                    arg = ([p2, path] if rev else [path, p2]) if case["multi"] == "list" \
                        else os.path.join(root, "d*.parq")
                    gm = guarded(f"read_parquet_dask-{case['multi']}", lambda: read_parquet_dask(arg).compute())
                    if gm is not None:
                        ctx.count("roundtrips_checked")
                        # a list is concatenated in *list* order, whatever the paths sort like
                        want = concat_ledgers(ledger(ref2), led) if rev else concat_ledgers(led, ledger(ref2))
                        compare(ctx, viol, gm, want, f"dask-{case['multi']}{'-unsorted' if rev else ''}")
        ctx.case([case["spec"]["cols"], route, case["index_kind"], case["compression"], case["npartitions"],
                  proj, case["forms"], case["multi"]], nontrivial=nontrivial)
        ctx.sig(kind, subtype, route, case["index_kind"], str(case["compression"]),
                "proj" if proj else "-", case["multi"], f"np{min(case['npartitions'], 12)}" if route == "dask" else "-")
        if len(ctx.samples) < 4:
            ctx.sample({"columns": w["columns"], "route": route, "index_kind": case["index_kind"],
                        "rows": case["spec"]["n"], "first_elements": [c["elements"][:2] for c in case["spec"]["cols"]]})
    finally:
        shutil.rmtree(root, ignore_errors=True)


def token_probe(ctx, kind):
    """History-dependent case (F13): two live Dask collections built from value-equal frames
    of different coordinate subtype must not be confused by dask's name cache."""
    import dask
    import dask.dataframe as dd
    from spatialpandas import GeoDataFrame
    rng = np.random.default_rng(7)
    els = [gg.rand_element(rng, kind, 5) for _ in range(4)]
    frames = {}
    with dask.config.set(scheduler="synchronous"):
        for st in ("float32", "float64", "int32", "int64"):
            df = GeoDataFrame({"g": gg.make_array(kind, els, st), "k": [1, 2, 3, 4]})
            frames[st] = (df, dd.from_pandas(df, npartitions=2))
        for st, (df, ddf) in frames.items():
            ok, got, tb = ctx.guarded(lambda: str(ddf.compute()["g"].dtype))
            ctx.count("token_probes")
            ctx.sig(kind, "token-probe", st)
            if not ok or got != str(df["g"].dtype):
                ctx.violation("dtype", "parquet:dask:value-equal-frames-confused-by-token",
                              {"kind": kind, "subtype": st}, expected=str(df["g"].dtype),
                              observed=got if ok else short_exc(got))


def run(ctx, spec):
    p = spec["params"]
    for kind in p["kinds"]:
        token_probe(ctx, kind)
    for kind in p["kinds"]:
        for subtype in p["subtypes"]:
            for _ in range(p["cases"]):
                check_case(ctx, gen_case(ctx.rng, kind, subtype))


def replay(ctx, v):
    check_case(ctx, v["case"])
