"""C01 - box-intersection test is geometrically exact for every geometry type.

Monitor: every (element, box) answer of the real intersects_bounds (whole-array form,
array form restricted by inds, scalar form, GeoSeries form, all four corner orders,
arrays of different provenance) is compared with the exact oracle (integer SAT
segment/box test, even-odd parity) and, for rectilinear shapes, with the geometry-free
raster oracle.  The two oracles are compared with each other on every such case.
"""
import numpy as np

from .. import arrays as A
from .. import gen_geom as gg
from .. import oracle_geom as og
from ..ctx import exc_in_repo, scribble, short_exc

RULE = ("cases = (kind, coordinate subtype, element, box) with the element taken from hostile "
        "generators (rectilinear cell-set polygons with holes / nested / touching parts, star "
        "polygons with oblique edges, random-walk lines with repeated vertices, multipoints) "
        "after an exact affine stretch, and boxes from the complete half-grid sweep around the "
        "shape (corners on vertices, edges, hole interiors) plus reversed corners; a case is "
        "non-trivial when the element's bounding box overlaps the box; distinct = distinct "
        "hash of (kind, subtype, element coordinates, box)")
ASSUMPTIONS = [
    "coordinates inside the exactness domain (ints / half-integers, |v| <= 2^25; 2^14 for "
    "int16; 2^10 for float32) so that implementation arithmetic is exact",
    "polygons valid by construction (simple rings, holes strictly inside, wound opposite to the "
    "shell)", "pyarrow to_pylist is a faithful independent read-back of element values",
    "boxes of positive width and height for line/polygon kinds"]
DECIDING_COUNTERS = ["truth_checked", "form_checked"]

GROUPS = [["point", "multipoint", "line"], ["ring", "multiline"], ["polygon"],
          ["multipolygon"]]


def shards(tier, seed):
    subs = A.pick_subtypes(tier, seed)
    out = []
    if tier == "quick":
        for gi, kinds in enumerate(GROUPS):
            for b in ("J", "B"):
                out.append({"name": f"{'+'.join(kinds)}-{b}", "build": b,
                            "params": {"kinds": kinds, "subtypes": subs, "cases": 40 if b == "J" else 15,
                                       "G": 4, "boxlimit": 700}})
    else:
        for gi, kinds in enumerate(GROUPS):
            for si, st in enumerate(subs):
                b = "B" if (gi + si) % 3 == 0 else "J"
                out.append({"name": f"{'+'.join(kinds)}-{st}-{b}", "build": b,
                            "params": {"kinds": kinds, "subtypes": [st], "cases": 60,
                                       "G": 5, "boxlimit": 2500}})
    return out


# ---------------------------------------------------------------------------------------
def gen_case(rng, kind, subtype, G, boxlimit, n_el=10):
    """A replayable case: elements (ints, after stretch), boxes in doubled ints."""
    els, cells = [], []
    for _ in range(n_el):
        if kind == "polygon" and rng.random() < 0.6:
            r, c = gg.rect_polygon(rng, G)
            els.append(r)
            cells.append(sorted(c))
        elif kind == "multipolygon" and rng.random() < 0.7:
            p, c = gg.rect_multipolygon(rng, G)
            els.append(p)
            cells.append(sorted(c))
        else:
            els.append(gg.rand_element(rng, kind, G))
            cells.append(None)
    if kind in ("polygon", "multipolygon") and rng.random() < 0.35:
        # a big hole whose ring starts at a random corner, in a big shell: boxes strictly inside the
        # hole, between rings, across the line from the shell's last to the hole's first vertex
        a, b = int(rng.integers(1, 4)), int(rng.integers(5, 9))
        shell = gg.rotate([(0, 0), (10, 0), (10, 10), (0, 10), (0, 0)], int(rng.integers(4)))
        hole = gg.rotate([(a, a), (a, b), (b, b), (b, a), (a, a)], int(rng.integers(4)))
        if rng.random() < 0.5:
            shell, hole = shell[::-1], hole[::-1]
        rings = [gg.flat(shell), gg.flat(hole)]
        k_ = int(rng.integers(len(els)))
        els[k_] = rings if kind == "polygon" else [rings]
        cells[k_] = None
    # pre-scale: the box half-grid becomes finer than the grid the shapes live on, so that boxes
    # fit strictly inside unit holes and notches
    m_ = int(rng.choice([1, 1, 2, 3])) if kind not in ("point", "multipoint") else 1
    if m_ > 1:
        els = [gg.transform(e, kind, m_, 0, 0) for e in els]
    extent = max([G * m_] + [max(gg.coords_of(kind, e)) for e in els if gg.coords_of(kind, e)])
    lo = min([0] + [min(gg.coords_of(kind, e)) for e in els if gg.coords_of(kind, e)])
    s, tx, ty = A.fit_transform(rng, kind, els, subtype, extent - lo)
    tx -= lo * s
    ty -= lo * s
    # inert elements at random positions
    order = list(range(len(els)))
    inert = [None] + gg.empty_elements(kind)
    if kind == "point" and np.dtype(subtype).kind == "f":
        inert.append([float("nan"), float("nan")])      # a present point without coordinates
    for e in inert:
        pos = int(rng.integers(0, len(order) + 1))
        order.insert(pos, ("inert", e))
    elements, ecells = [], []
    for o in order:
        if isinstance(o, tuple):
            elements.append(o[1])
            ecells.append(None)
        else:
            elements.append(gg.transform(els[o], kind, s, tx, ty))
            ecells.append(cells[o])
    # boxes on the (stretched) half grid around the data, doubled units
    degenerate_ok = kind in ("point", "multipoint")
    B = gg.boxes_halfgrid(lo - 1, extent + 1, rng, limit=boxlimit,
                          min_size=0 if degenerate_ok else 1)
    if degenerate_ok:
        # boxes_halfgrid(min_size=0) still has b>a from combinations: add degenerate ones
        vals = gg.half_grid(lo - 1, extent + 1)
        k = min(60, len(vals))
        xs = rng.choice(vals, size=k)
        ys = rng.choice(vals, size=k)
        D = np.stack([xs, ys, xs, ys], axis=1)
        D2 = np.stack([xs, ys, xs, rng.choice(vals, size=k)], axis=1)
        D2[:, [1, 3]] = np.sort(D2[:, [1, 3]], axis=1)
        B = np.concatenate([B, D, D2]).astype(np.int64)
    # stretch boxes: doubled units -> value*2 ; v' = v*s + t  => doubled' = d*s + 2t
    Bs = B.copy()
    Bs[:, [0, 2]] = B[:, [0, 2]] * s + 2 * tx
    Bs[:, [1, 3]] = B[:, [1, 3]] * s + 2 * ty
    if not subtype.startswith("float") and len(Bs):
        # box ends strictly between the values an integer coordinate subtype can hold (half-integers) and, for the
        # float32 analogue, see the point/multipoint cases of C02 / C04
        P = Bs.copy()
        sel = rng.random(P.shape) < 0.3
        P[sel & (P % 2 == 0)] += rng.choice([-1, 1], size=int((sel & (P % 2 == 0)).sum()))
        okb = (P[:, 0] < P[:, 2]) & (P[:, 1] < P[:, 3]) if not degenerate_ok else \
            (P[:, 0] <= P[:, 2]) & (P[:, 1] <= P[:, 3])
        Bs[okb] = P[okb]
    return {"kind": kind, "subtype": subtype, "elements": elements, "cells": ecells,
            "stretch": [s * m_, tx, ty], "boxes2": Bs.tolist()}


def relation_classes(kind, el2, B, exp):
    """Relation class per box (for the evidence signature); el2 in doubled units."""
    m = B.shape[0]
    cls = np.empty(m, dtype=object)
    flat = og.flat_coords(kind, el2)
    if not flat:
        cls[:] = "inert"
        return cls, np.zeros(m, dtype=bool)
    xs, ys = np.array(flat[0::2]), np.array(flat[1::2])
    bx0, by0, bx1, by1 = xs.min(), ys.min(), xs.max(), ys.max()
    overlap = ~((bx0 > B[:, 2]) | (bx1 < B[:, 0]) | (by0 > B[:, 3]) | (by1 < B[:, 1]))
    proj = ((bx0 >= B[:, 0]) & (bx1 <= B[:, 2])) | ((by0 >= B[:, 1]) & (by1 <= B[:, 3]))
    vin = np.zeros(m, dtype=bool)
    for x, y in zip(xs.tolist(), ys.tolist()):
        vin |= (B[:, 0] <= x) & (x <= B[:, 2]) & (B[:, 1] <= y) & (y <= B[:, 3])
    # open-box variant in quadrupled units: contact only on the box boundary?
    B4 = B * 2
    B4[:, 0] += 1
    B4[:, 1] += 1
    B4[:, 2] -= 1
    B4[:, 3] -= 1
    okb = (B4[:, 2] >= B4[:, 0]) & (B4[:, 3] >= B4[:, 1])
    el4 = gg.transform(el2, kind, 2, 0, 0)
    inner = np.zeros(m, dtype=bool)
    if okb.any():
        inner[okb] = og.element_box_many(kind, el4, B4[okb])
    cls[:] = "other"
    cls[~overlap] = "bbox-disjoint"
    cls[overlap & proj] = "projection-contained"
    cls[overlap & ~proj & vin] = "vertex-inside"
    cls[overlap & ~proj & ~vin & exp] = "edge-cross-or-box-inside"
    cls[overlap & ~proj & ~vin & ~exp] = "overlap-but-miss"
    cls[overlap & exp & ~inner] = "touch-only"
    return cls, overlap


def check_case(ctx, case, full=True):
    kind, subtype = case["kind"], case["subtype"]
    elements = case["elements"]
    B = np.array(case["boxes2"], dtype=np.int64).reshape(-1, 4)
    rng = np.random.default_rng(abs(hash((len(elements), int(B.sum() % (2 ** 31))))) % (2 ** 32))
    n, m = len(elements), B.shape[0]
    boxes_f = B.astype(np.float64) / 2.0

    def rec_raise(where, e, tb, form):
        if exc_in_repo(tb) or isinstance(e, IndexError):
            ctx.violation("raised", f"intersects_bounds:{kind}:{form}:{type(e).__name__}",
                          {"kind": kind, "subtype": subtype, "where": where},
                          observed=short_exc(e), case=case, msg=tb[-1500:])
            return True
        raise e

    ok, arr, tb = ctx.guarded(gg.make_array, kind, elements, subtype)
    if not ok:
        rec_raise("construct", arr, tb, "direct")
        return
    # independent read-back of what the array holds (guards the harness, too)
    back = gg.pylist(arr)

    # ---- implementation: whole-array form, one call per box ---------------------------
    impl = np.zeros((n, m), dtype=bool)

    def caller_writes_into_results(box):
        # what a caller may do with arrays it was handed: write into them.  Every answer below is
        # computed after that, so a result that aliases state of the array shows up against the oracle
        got = [lambda: arr.bounds, lambda: arr.total_bounds, lambda: arr.intersects_bounds(box),
               lambda: arr.intersects_bounds(box, np.arange(n, dtype=np.uint32))]
        if kind == "point":
            got += [lambda: arr.x, lambda: arr.y]
        for g_ in got:
            ok_, v_, _tb = ctx.guarded(g_)
            if ok_:
                ctx.count("caller_written_results", scribble(v_))

    for j in range(m):
        if n and j in (0, m // 2):
            caller_writes_into_results(tuple(boxes_f[j]))
        ok, r, tb = ctx.guarded(arr.intersects_bounds, tuple(boxes_f[j]))
        if not ok:
            rec_raise(f"array form box {boxes_f[j].tolist()}", r, tb, "array")
            return
        r = np.asarray(r)
        if r.shape != (n,) or r.dtype != np.bool_:
            ctx.violation("form", f"intersects_bounds:{kind}:result-shape",
                          {"kind": kind, "subtype": subtype, "box": boxes_f[j].tolist()},
                          expected=[n, "bool"], observed=[list(r.shape), str(r.dtype)], case=case)
            return
        impl[:, j] = r

    # ---- oracle ---------------------------------------------------------------------------
    exp = np.zeros((n, m), dtype=bool)
    for i, el in enumerate(elements):
        if kind == "point" and el is not None and gg.is_inert(kind, el):
            el2 = None                   # NaN coordinates: intersects nothing
            ctx.count("nan_points_checked")
        else:
            el2 = gg.transform(el, kind, 2, 0, 0)
        exp[i] = og.element_box_many(kind, el2, B)
        cls, overlap = relation_classes(kind, el2, B, exp[i])
        for c in np.unique(cls):
            ctx.sig(kind, subtype, "array", c, n=int((cls == c).sum()))
        h = A.element_hash(kind, subtype, el)
        ctx.case_hashes(A.mix_hash(h, B[overlap]), n_eval=m)
        ctx.count("truth_checked", m)
        if "touch-only" in cls:
            ctx.require(f"touch-only:{kind}", True)
        # raster cross-check of the oracle itself on rectilinear shapes
        cells = (case.get("cells") or [None] * n)[i]
        if cells is not None and el is not None:
            s, tx, ty = case["stretch"]
            cellset = {tuple(c) for c in cells}
            idx = rng.choice(m, size=min(m, 40), replace=False)
            for j in idx:
                # back to unstretched plain units (exact fractions)
                from fractions import Fraction as Fr
                bx = [Fr(int(B[j, 0]) - 2 * tx, 2 * s), Fr(int(B[j, 1]) - 2 * ty, 2 * s),
                      Fr(int(B[j, 2]) - 2 * tx, 2 * s), Fr(int(B[j, 3]) - 2 * ty, 2 * s)]
                r = og.cells_box(cellset, bx)
                ctx.count("oracle_crosschecks")
                if r != bool(exp[i, j]):
                    raise AssertionError(f"ORACLE DISAGREEMENT raster={r} general={exp[i, j]} "
                                         f"el={el} box={bx}")
        bad = np.nonzero(impl[i] != exp[i])[0]
        if len(bad):
            j = int(bad[0])
            inert = gg.is_inert(kind, el)
            clause = "inert-true" if inert else "truth"
            mech = f"intersects_bounds:{kind}:{'inert' if inert else cls[j]}"
            small = {"kind": kind, "subtype": subtype, "elements": elements, "cells": None,
                     "stretch": case["stretch"], "boxes2": [B[j].tolist()], "focus": i}
            ctx.violation(clause, mech,
                          {"kind": kind, "subtype": subtype, "element": el,
                           "box": boxes_f[j].tolist(), "index": i, "n_bad_boxes": int(len(bad))},
                          expected=bool(exp[i, j]), observed=bool(impl[i, j]), case=small)
    if len(ctx.samples) < 3:
        i = int(rng.integers(n))
        j = int(rng.integers(m))
        ctx.sample({"kind": kind, "subtype": subtype, "element": elements[i],
                    "box": boxes_f[j].tolist(), "oracle": bool(exp[i, j]),
                    "implementation": bool(impl[i, j])})
    if not full:
        return

    # ---- form agreement (consistency clauses; the answers must be identical) -----------------
    jsel = rng.choice(m, size=min(m, 24), replace=False)

    def cmp_form(form, got, ref, j, extra=None):
        ctx.count("form_checked", int(np.size(ref)))
        got = np.asarray(got)
        if got.shape != np.shape(ref) or (got != ref).any():
            w = {"kind": kind, "subtype": subtype, "form": form, "box": boxes_f[j].tolist()}
            w.update(extra or {})
            ctx.violation("form-agreement", f"intersects_bounds:{kind}:{form}", w,
                          expected=np.asarray(ref).tolist(), observed=got.tolist(),
                          case={**case, "boxes2": [B[j].tolist()]})

    for j in jsel:
        x0, y0, x1, y1 = boxes_f[j]
        # corner orders
        for name, bx in (("corners-x", (x1, y0, x0, y1)), ("corners-y", (x0, y1, x1, y0)),
                         ("corners-xy", (x1, y1, x0, y0))):
            ok, r, tb = ctx.guarded(arr.intersects_bounds, bx)
            if not ok:
                rec_raise(name, r, tb, name)
                continue
            cmp_form(name, r, impl[:, j], j)
            ctx.sig(kind, subtype, name)
        # inds forms: unsorted, repeated, empty, uint32
        for name, inds in (("inds-perm", rng.permutation(n)),
                           ("inds-repeat", rng.integers(0, n, size=n + 3)),
                           ("inds-empty", np.zeros(0, dtype=np.int64)),
                           ("inds-uint32", np.sort(rng.choice(n, size=max(1, n // 2),
                                                              replace=False)).astype(np.uint32))):
            inds0 = inds.copy()
            ok, r, tb = ctx.guarded(arr.intersects_bounds, (x0, y0, x1, y1), inds)
            if not ok:
                rec_raise(name, r, tb, name)
                continue
            ctx.count("inds_untouched_checked")
            if inds.dtype != inds0.dtype or not np.array_equal(inds, inds0):
                ctx.violation("input-modified", f"intersects_bounds:{kind}:callers-inds-array-written",
                              {"kind": kind, "subtype": subtype}, expected=inds0.tolist()[:30],
                              observed=inds.tolist()[:30], case=case)
                inds = inds0
            cmp_form(name, r, impl[inds.astype(np.int64), j], j, {"inds": inds.tolist()})
            ctx.sig(kind, subtype, name)
    # narrow integer positions on an array longer than their dtype can count (the array repeated to 300+ rows)
    if n and len(jsel):
        reps = 300 // n + 1
        ok, big, tb = ctx.guarded(lambda: gg.array_class(kind)._concat_same_type([arr] * reps))
        if ok:
            nb = len(big)
            for j in jsel[:2]:
                bx = tuple(boxes_f[j])
                ok, whole, tb = ctx.guarded(big.intersects_bounds, bx)
                if not ok:
                    rec_raise("long-array", whole, tb, "long-array")
                    break
                cmp_form("long-array", whole, np.tile(impl[:, j], reps), j)
                for dt_, pos in ((np.uint8, [255, 0, 254, 128, 127]), (np.int8, [127, 1, 126, 0]),
                                 (np.int16, [nb - 1, 0, 255, 256]), (np.uint16, [nb - 1, 128, 256])):
                    inds = np.array(pos, dtype=dt_)
                    ok, r, tb = ctx.guarded(big.intersects_bounds, bx, inds)
                    if not ok:
                        rec_raise(f"inds-{np.dtype(dt_).name}-long-array", r, tb, f"inds-{np.dtype(dt_).name}")
                        continue
                    cmp_form(f"inds-{np.dtype(dt_).name}-long-array", r, np.asarray(whole)[pos], j, {"inds": pos})
                    ctx.sig(kind, subtype, f"inds-{np.dtype(dt_).name}-long-array")
    # scalar form
    jsel2 = jsel[:8]
    for i in range(n):
        ok, sc, tb = ctx.guarded(lambda: arr[i])
        if not ok:
            if elements[i] is not None and og.flat_coords(kind, elements[i]):
                rec_raise("getitem", sc, tb, "scalar")
            else:
                ctx.count("scalar_unavailable_for_empty")     # C16's business (F15)
            continue
        if sc is None:
            continue
        for j in jsel2:
            ok, r, tb = ctx.guarded(sc.intersects_bounds, tuple(boxes_f[j]))
            if not ok:
                emp = not og.flat_coords(kind, elements[i])
                rec_raise(f"scalar element={elements[i]}", r, tb,
                          "scalar-empty" if emp else "scalar")
                break
            ctx.count("form_checked")
            ctx.sig(kind, subtype, "scalar")
            if bool(r) != bool(impl[i, j]):
                ctx.violation("form-agreement", f"intersects_bounds:{kind}:scalar",
                              {"kind": kind, "subtype": subtype, "element": elements[i],
                               "box": boxes_f[j].tolist()},
                              expected=bool(impl[i, j]), observed=bool(r),
                              case={**case, "boxes2": [B[j].tolist()], "focus": i})
    # provenance forms and GeoSeries
    from spatialpandas import GeoSeries
    forms = [f for f in A.FORMS if f != "direct"]
    for form in forms:
        ok, a2, tb = ctx.guarded(A.build_form, kind, elements, subtype, form, rng)
        if not ok:
            rec_raise(form, a2, tb, form)
            continue
        if gg.pylist(a2) != back:
            # selection laws are C16's business; skip here
            ctx.count("form_values_differ")
            continue
        for j in jsel2:
            ok, r, tb = ctx.guarded(a2.intersects_bounds, tuple(boxes_f[j]))
            if not ok:
                rec_raise(form, r, tb, form)
                continue
            cmp_form(form, r, impl[:, j], j)
            ctx.sig(kind, subtype, form)
    if kind == "point" and any(e is None for e in elements) and any(e is not None for e in elements):
        # missing points whose null slots hold the coordinates of a real point of the array
        real = [e for e in elements if e is not None]
        ok, ha, tb = ctx.guarded(A.hostile_points, elements, subtype, None, real[int(rng.integers(len(real)))])
        if not ok:
            rec_raise("hostile-null-slots", ha, tb, "hostile-null-slots")
        else:
            allidx = np.arange(n)
            for j in jsel:
                for nm, inds_ in (("hostile-null-slots", None), ("hostile-null-slots-inds", allidx[::-1].copy())):
                    ok, r, tb = ctx.guarded(ha.intersects_bounds, tuple(boxes_f[j]), inds_)
                    if not ok:
                        rec_raise(nm, r, tb, nm)
                        continue
                    cmp_form(nm, r, impl[:, j] if inds_ is None else impl[::-1, j], j)
                    ctx.sig(kind, subtype, nm)
    ok, gs, tb = ctx.guarded(lambda: GeoSeries(arr, index=[f"r{i}" for i in range(n)]))
    if ok:
        for j in jsel2[:3]:
            ok, r, tb = ctx.guarded(gs.intersects_bounds, tuple(boxes_f[j]))
            if not ok:
                rec_raise("geoseries", r, tb, "geoseries")
                continue
            cmp_form("geoseries", np.asarray(r.values), impl[:, j], j)
            if list(r.index) != list(gs.index):
                ctx.violation("form-agreement", f"intersects_bounds:{kind}:geoseries-index",
                              {"kind": kind}, expected=list(gs.index), observed=list(r.index),
                              case=case)
            ctx.sig(kind, subtype, "geoseries")
    else:
        rec_raise("geoseries-construct", gs, tb, "geoseries")


def run(ctx, spec):
    p = spec["params"]
    rng = ctx.rng
    for kind in p["kinds"]:
        if kind in ("line", "ring", "multiline", "polygon", "multipolygon"):
            ctx.require(f"touch-only:{kind}", False)
        for subtype in p["subtypes"]:
            for c in range(p["cases"]):
                case = gen_case(rng, kind, subtype, p["G"], p["boxlimit"])
                check_case(ctx, case, full=True)
                ctx.count("arrays")


def replay(ctx, v):
    check_case(ctx, v["case"], full=True)
