"""C15 - oriented() normalises ring direction without changing the shape.

Monitor on the real PolygonArray.oriented / MultiPolygonArray.oriented: exact signed ring
areas of the output, cyclic-sequence comparison of every ring with its input ring,
structure and missing mask, idempotence, byte hash of every input buffer before/after,
re-evaluation of box and point intersection on input and output (valid polygons), and the
bounds-sanitizer build (any IndexError is a violation)."""
import hashlib
import itertools

import numpy as np

from .. import arrays as A
from .. import gen_geom as gg
from .. import oracle_geom as og
from ..ctx import exc_in_repo, short_exc

RULE = ("cases = (kind, subtype, array, provenance form); every polygon is a valid rectilinear or "
        "star polygon with 0-3 holes to which one of ALL 2^rings clockwise/counter-clockwise "
        "patterns is applied, mixed with degenerate rings (zero area, <3 vertices, empty), missing "
        "elements first/last/everywhere and arrays sliced at non-zero offsets; non-trivial = array "
        "with at least one ring of non-zero area; distinct = hash of (kind, subtype, elements)")
ASSUMPTIONS = ["orientation and idempotence clauses on closed rings (rings stored without their closing vertex, and int64 "
               "coordinates beyond 2**53, get the structural clauses only: vertices, counts, missing mask, input untouched); intersection-invariance and area clauses on "
               "polygons whose holes are wound opposite to their shell (valid polygons)",
               "ring rotation is accepted (the statement promises the cyclic order only)"]
DECIDING_COUNTERS = ["rings_checked", "idempotence_checked", "immutability_checked"]


def shards(tier, seed):
    subs = A.pick_subtypes(tier, seed, n_quick=3)
    if "int64" not in subs:
        subs = subs + ["int64"]          # the only subtype whose values a float64 detour can change
    n = 80 if tier == "quick" else 900
    out = []
    for kind in ("polygon", "multipolygon"):
        for b in ("J", "B"):
            out.append({"name": f"{kind}-{b}", "build": b,
                        "params": {"kind": kind, "subtypes": subs, "cases": n}})
    return out


def _rev(flat_):
    return gg.flat(og.pts_of(flat_)[::-1])


def gen_polygon(rng, patterns):
    """(rings, valid_orientation) - valid polygon with an orientation pattern applied."""
    r = rng.random()
    if r < 0.15:
        from .c14 import degenerate_ring
        rings = [degenerate_ring(rng) for _ in range(int(rng.integers(1, 4)))]
        if rng.random() < 0.4:
            rings.insert(int(rng.integers(0, len(rings) + 1)), [])
        return rings, False
    if r < 0.25:
        # unit lattice triangle, |area| = 1/2: the smallest definite orientation on integer grids
        x, y = int(rng.integers(0, 6)), int(rng.integers(0, 6))
        rings = [gg.flat([(x, y), (x + 1, y), (x, y + 1), (x, y)])]
        if rng.random() < 0.4:
            rings = [gg.flat([(x - 3, y - 3), (x + 4, y - 3), (x + 4, y + 4), (x - 3, y + 4), (x - 3, y - 3)]),
                     gg.flat([(x, y), (x, y + 1), (x + 1, y), (x, y)])]
    elif r < 0.6:
        rings = gg.rect_polygon(rng, int(rng.integers(3, 6)), reverse=False, dup_p=0.1)[0]
    else:
        rings = gg.star_polygon(rng, span=6, holes=(0, 1, 2, 3))
        if og.ring_area2(rings[0]) < 0:
            rings = [_rev(x) for x in rings]
    # canonical now: shell CCW, holes CW.  Apply a pattern of flips.
    k = len(rings)
    if k <= 4:
        pats = patterns.setdefault(k, list(itertools.product([0, 1], repeat=k)))
        if not pats:
            pats.extend(itertools.product([0, 1], repeat=k))
        pat = pats.pop(int(rng.integers(len(pats))))
    else:
        pat = tuple(int(v) for v in rng.integers(0, 2, size=k))
    out = [(_rev(x) if f else x) for x, f in zip(rings, pat)]
    valid = all(f == pat[0] for f in pat)        # every hole opposite to its shell
    if rng.random() < 0.15:
        # a zero-area (collinear, closed) extra hole keeps the polygon's point set
        a = og.pts_of(rings[0])[0]
        out.append(gg.flat([a, a, a]))
    if rng.random() < 0.12:
        # rings stored without their closing vertex: nothing is claimed about their direction, but their
        # vertices, like everybody's, stay in the same cyclic order or its reverse
        for j in range(len(out)):
            if len(out[j]) >= 10 and rng.random() < 0.7:
                out[j] = out[j][:-2]
        valid = False
    return out, valid


def gen_case(rng, kind, subtype, patterns):
    n = int(rng.integers(1, 8))
    els, valid = [], []
    for _ in range(n):
        if kind == "polygon":
            p, v = gen_polygon(rng, patterns)
            els.append(p)
            valid.append(v)
        else:
            parts, vs = [], []
            off = 0
            for _p in range(int(rng.integers(1, 4))):
                p, v = gen_polygon(rng, patterns)
                p = [[c + off if i % 2 == 0 else c for i, c in enumerate(rg)] for rg in p]
                off += 40
                parts.append(p)
                vs.append(v)
            els.append(parts)
            valid.append(all(vs))
    # missing / empty placement
    mode = int(rng.integers(6))
    inert = [None] + gg.empty_elements(kind)
    def ins(pos, e):
        els.insert(pos, e)
        valid.insert(pos, False)
    if mode == 0:
        ins(0, None)
    elif mode == 1:
        ins(len(els), None)
    elif mode == 2:
        ins(len(els), None)
        ins(len(els), None)
        ins(0, inert[int(rng.integers(len(inert)))])
    elif mode == 3:
        for _ in range(int(rng.integers(1, 4))):
            ins(int(rng.integers(0, len(els) + 1)), inert[int(rng.integers(len(inert)))])
    elif mode == 4 and rng.random() < 0.3:
        els[:] = [None] * len(els)
        valid[:] = [False] * len(valid)
    allc = [v for e in els for v in gg.coords_of(kind, e)]
    lo, hi = (min(allc), max(allc)) if allc else (0, 1)
    s, tx, ty = A.fit_transform(rng, kind, els, subtype, hi - lo)
    tx -= lo * s
    ty -= lo * s
    els0 = list(els)
    els = [gg.transform(e, kind, s, tx, ty) for e in els]
    if subtype == "int16" and rng.random() < 0.35 and allc and hi > lo:
        # the whole int16 range: rings wider than half the type's range (areas stay exact in int64)
        k_ = 65535 // (hi - lo)
        els = [gg.transform(e, kind, k_, -32768 - lo * k_, -32768 - lo * k_) for e in els0]
        s, tx, ty = k_, -32768 - lo * k_, -32768 - lo * k_
    huge = 0
    if subtype == "int64" and rng.random() < 0.2:
        # coordinates beyond 2**53 (not representable as float64): only the structural clauses apply
        huge = int(rng.choice([2 ** 53 + 1, 2 ** 60 + 3, -2 ** 53 - 21]))
        els = [gg.transform(e, kind, 1, huge, huge) for e in els]
        valid = [False] * len(valid)
    down = 0
    if subtype == "float64" and rng.random() < 0.3:
        # exact dyadic down-scaling: tiny rings (areas down to ~1e-12) keep a definite orientation
        down = int(rng.integers(8, 22))
        els = [gg.transform(e, kind, 2.0 ** -down, 0.0, 0.0) for e in els0]
    return {"kind": kind, "subtype": subtype, "elements": els, "valid": valid, "down": down, "huge": huge,
            "box_lohi": [lo * s + tx, hi * s + tx, lo * s + ty, hi * s + ty],
            "formseed": int(rng.integers(2 ** 31))}


def _buf_hash(arr):
    h = hashlib.blake2b(digest_size=16)
    for b in arr.data.buffers():
        h.update(b"N" if b is None else bytes(memoryview(b)))
    return h.hexdigest()


def _same_cycle(a, b):
    """ring b has the vertices of ring a in the same cyclic order or its reverse."""
    pa_, pb = og.pts_of(a), og.pts_of(b)
    if len(pa_) != len(pb):
        return False
    if pa_ == pb or pa_ == pb[::-1]:
        return True
    if len(pa_) >= 2 and pa_[0] == pa_[-1] and pb[0] == pb[-1]:
        ca, cb = pa_[:-1], pb[:-1]
        n = len(ca)
        if n == 0:
            return True
        for seq in (cb, cb[::-1]):
            for k in range(n):
                if seq[k:] + seq[:k] == ca:
                    return True
    return False


def rings_of(kind, el):
    """[(part index, ring index, ring)]"""
    if el is None:
        return []
    if kind == "polygon":
        return [(0, j, r) for j, r in enumerate(el)]
    return [(i, j, r) for i, part in enumerate(el) for j, r in enumerate(part)]


def check_case(ctx, case):
    from spatialpandas.geometry import PointArray
    kind, subtype, els, valid = case["kind"], case["subtype"], case["elements"], case["valid"]
    rng = np.random.default_rng(case["formseed"])
    n = len(els)

    def rec_raise(where, e, tb):
        if exc_in_repo(tb) or isinstance(e, IndexError):
            tail = "missing-last" if (els and els[-1] is None) else "other"
            ctx.violation("raised", f"oriented:{kind}:{where}:{type(e).__name__}:{tail}",
                          {"kind": kind, "subtype": subtype, "elements": els},
                          observed=short_exc(e), case=case, msg=tb[-1500:])
            return True
        raise e

    ok, forms, tb = ctx.guarded(A.all_forms, kind, els, subtype, rng)
    if not ok:
        return rec_raise("construct", forms, tb)
    nontrivial = any(og.is_closed(r) and og.ring_area2([og.to_exact(v) for v in r]) != 0
                     for e in els for _, _, r in rings_of(kind, e))
    ref_out = None
    for form, arr in forms:
        vals = gg.pylist(arr)
        if len(vals) != n or not all(gg.same_value(a, b) for a, b in zip(vals, els)):
            ctx.count("form_values_differ")
            continue
        h0 = _buf_hash(arr)
        ok, out, tb = ctx.guarded(arr.oriented)
        if not ok:
            rec_raise(f"call", out, tb)
            continue
        ctx.case([kind, subtype, els, form], nontrivial=nontrivial)
        ctx.sig(kind, subtype, form, "tiny" if case.get("down") else "huge" if case.get("huge") else "-", "missing-last" if (els and els[-1] is None) else
                ("missing-first" if (els and els[0] is None) else "-"))
        # input untouched
        ctx.count("immutability_checked")
        if _buf_hash(arr) != h0 or not all(gg.same_value(a, b) for a, b in zip(gg.pylist(arr), vals)):
            ctx.violation("input-modified", f"oriented:{kind}:input-mutated",
                          {"kind": kind, "subtype": subtype, "form": form, "elements": els},
                          expected=vals, observed=gg.pylist(arr), case=case)
        o = gg.pylist(out)
        if type(out) is not type(arr) or out.dtype != arr.dtype or len(o) != n:
            ctx.violation("structure", f"oriented:{kind}:type-or-length",
                          {"elements": els}, expected=[type(arr).__name__, str(arr.dtype), n],
                          observed=[type(out).__name__, str(out.dtype), len(o)], case=case)
            continue
        bad = False
        for i, (e_in, e_out) in enumerate(zip(vals, o)):
            if (e_in is None) != (e_out is None):
                ctx.violation("missing", f"oriented:{kind}:missing-mask",
                              {"kind": kind, "subtype": subtype, "elements": els, "index": i},
                              expected=e_in, observed=e_out, case=case)
                bad = True
                break
            if e_in is None:
                continue
            rin, rout = rings_of(kind, e_in), rings_of(kind, e_out)
            if [(a, b) for a, b, _ in rin] != [(a, b) for a, b, _ in rout] or \
                    (kind == "multipolygon" and len(e_in) != len(e_out)):
                ctx.violation("structure", f"oriented:{kind}:ring-counts",
                              {"element": e_in}, expected=[(a, b) for a, b, _ in rin],
                              observed=[(a, b) for a, b, _ in rout], case=case)
                bad = True
                break
            for (pi, ri, r0), (_, _, r1) in zip(rin, rout):
                ctx.count("rings_checked")
                if not _same_cycle(r0, r1):
                    ctx.violation("vertices", f"oriented:{kind}:ring-vertices",
                                  {"kind": kind, "subtype": subtype, "ring": r0, "element": e_in},
                                  expected=r0, observed=r1, case=case)
                    bad = True
                    break
                if og.is_closed(r1) and len(r1) >= 8 and not case.get("huge"):
                    a2 = og.ring_area2([og.to_exact(v) for v in r1])
                    role = "shell" if ri == 0 else "hole"
                    if a2 != 0 and ((role == "shell") != (a2 > 0)):
                        ctx.violation("orientation", f"oriented:{kind}:{role}-direction",
                                      {"kind": kind, "subtype": subtype, "element": e_in,
                                       "ring_in": r0, "role": role},
                                      expected="ccw" if role == "shell" else "cw",
                                      observed=r1, case=case)
                        bad = True
                        break
                    ctx.sig(kind, subtype, role, "flipped" if og.pts_of(r0) != og.pts_of(r1) else "kept",
                            "zero-area" if a2 == 0 else "area")
            if bad:
                break
        if bad:
            continue
        # idempotence
        ok, out2, tb = ctx.guarded(out.oriented)
        if not ok:
            rec_raise("second-call", out2, tb)
        else:
            ctx.count("idempotence_checked")
            o2 = gg.pylist(out2)
            if case.get("huge"):
                ctx.count("huge_coordinate_arrays_checked")
            elif len(o2) != len(o) or not all(
                    gg.same_value(a, b) for a, b, e_ in zip(o2, o, vals)
                    # (rings stored without their closing vertex have no defined direction: the second
                    #  call may turn them again; nothing is claimed for elements that hold one)
                    if all(og.is_closed(r_) or len(r_) < 6 for _, _, r_ in rings_of(kind, e_))):
                zero = any(og.is_closed(r) and len(r) >= 6 and og.ring_area2([og.to_exact(v) for v in r]) == 0
                           for e in els for _, _, r in rings_of(kind, e))
                ctx.violation("idempotence",
                              f"oriented:{kind}:not-idempotent:{'zero-area-ring' if zero else 'other'}",
                              {"kind": kind, "subtype": subtype, "elements": els},
                              expected=o, observed=o2, case=case)
        # provenance forms agree
        if ref_out is None:
            ref_out = o
        elif not all(gg.same_value(a, b) for a, b in zip(ref_out, o)):
            ctx.violation("form-agreement", f"oriented:{kind}:{form}", {"elements": els},
                          expected=ref_out, observed=o, case=case)
        # areas and intersections on valid polygons
        if form in ("direct", "sliced"):
            ok, r, tb = ctx.guarded(lambda: (np.asarray(arr.area), np.asarray(out.area)))
            if not ok:
                rec_raise("area", r, tb)
            else:
                for i in range(n):
                    if valid[i] and vals[i] is not None:
                        ctx.count("area_checked")
                        # exact expectation: per polygon |shell| - sum |holes| (its magnitude is
                        # what the statement keeps; parts of a multipolygon may have been
                        # wound differently before)
                        parts = [vals[i]] if kind == "polygon" else vals[i]
                        exp2 = 0
                        for part in parts:
                            a = [abs(og.ring_area2([og.to_exact(v) for v in rg]))
                                 for rg in part if len(rg) >= 6]
                            if a:
                                exp2 += a[0] - sum(a[1:])
                        before_ok = kind != "polygon" or abs(float(r[0][i])) * 2 == exp2
                        if not (r[1][i] >= 0 and float(r[1][i]) * 2 == exp2 and before_ok):
                            ctx.violation("area", f"oriented:{kind}:area",
                                          {"element": vals[i], "area_before": float(r[0][i])},
                                          expected=float(exp2) / 2,
                                          observed=float(r[1][i]), case=case)
            lo_x, hi_x, lo_y, hi_y = case["box_lohi"]
            vi = [i for i in range(n) if valid[i]]
            if vi and hi_x > lo_x and hi_y > lo_y and not case.get("down"):
                for _ in range(12):
                    xs = np.sort(rng.integers(2 * lo_x - 2, 2 * hi_x + 3, size=2)) / 2.0
                    ys = np.sort(rng.integers(2 * lo_y - 2, 2 * hi_y + 3, size=2)) / 2.0
                    if xs[0] == xs[1] or ys[0] == ys[1]:
                        continue
                    bx = (xs[0], ys[0], xs[1], ys[1])
                    ok, r, tb = ctx.guarded(lambda: (arr.intersects_bounds(bx), out.intersects_bounds(bx)))
                    if not ok:
                        rec_raise("intersects_bounds", r, tb)
                        break
                    ctx.count("intersection_invariance_checked", len(vi))
                    if (np.asarray(r[0])[vi] != np.asarray(r[1])[vi]).any():
                        ctx.violation("intersection-changed", f"oriented:{kind}:intersects_bounds",
                                      {"elements": els, "box": list(bx)},
                                      expected=np.asarray(r[0]).tolist(),
                                      observed=np.asarray(r[1]).tolist(), case=case)
                        break
                ptsub = "float64" if not subtype.startswith("float32") else "float32"
                px = rng.integers(2 * lo_x - 2, 2 * hi_x + 3, size=60) / 2.0
                py = rng.integers(2 * lo_y - 2, 2 * hi_y + 3, size=60) / 2.0
                P = PointArray(np.stack([px, py], axis=1).astype(ptsub))
                for i in vi[:4]:
                    ok, r, tb = ctx.guarded(lambda: (P.intersects(arr[i]), P.intersects(out[i])))
                    if not ok:
                        rec_raise("intersects", r, tb)
                        break
                    # points on a ring are outside C02's guarantee: the half-open edge rule may
                    # legitimately flip with the ring direction
                    code = og.points_vs_shape_many(
                        kind, gg.transform(vals[i], kind, 2, 0, 0),
                        (px * 2).astype(np.int64), (py * 2).astype(np.int64))
                    offb = code != 2
                    ctx.count("intersection_invariance_checked", int(offb.sum()))
                    if (np.asarray(r[0])[offb] != np.asarray(r[1])[offb]).any():
                        ctx.violation("intersection-changed", f"oriented:{kind}:point-intersects",
                                      {"element": vals[i]}, expected=np.asarray(r[0]).tolist(),
                                      observed=np.asarray(r[1]).tolist(), case=case)
                        break
    if len(ctx.samples) < 4 and ref_out is not None and n:
        ctx.sample({"kind": kind, "subtype": subtype, "input": els[:2], "oriented": ref_out[:2]})


def run(ctx, spec):
    p = spec["params"]
    patterns = {}
    for subtype in p["subtypes"]:
        for _ in range(p["cases"]):
            check_case(ctx, gen_case(ctx.rng, p["kind"], subtype, patterns))
    ctx.extra["orientation_patterns_left"] = {str(k): len(v) for k, v in patterns.items()}


def replay(ctx, v):
    check_case(ctx, v["case"])
