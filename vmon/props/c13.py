"""C13 - bounds and total_bounds are the tight extents of the geometry.

Monitor: the real bounds / total_bounds / total_bounds_x / total_bounds_y getters (array,
GeoSeries, Dask series, spatial index) are compared with min/max over the element
coordinates read back independently with pyarrow to_pylist (values are read, never
computed, so the comparison is exact for any representable coordinates, including
non-finite ones)."""
import math

import numpy as np

from .. import arrays as A
from .. import gen_geom as gg
from .. import oracle_geom as og
from ..ctx import exc_in_repo, scribble, short_exc

RULE = ("cases = (kind, subtype, array, provenance form, accessor); arrays are built from "
        "unconstrained elements (missing at any position, every empty form, NaN/inf coordinates, "
        "extreme magnitudes, zero rows) directly, by slicing a larger array, concatenation, take, "
        "pickling, and - for points - with null slots holding arbitrary bytes; non-trivial = array "
        "with at least one non-inert element; distinct = hash of (kind, subtype, elements, form)")
ASSUMPTIONS = ["pyarrow to_pylist is a faithful independent read-back of element values",
               "integer coordinates below 2^50 so that float64 bounds are exact"]
SPLIT_KINDS = True         # thorough tier: one shard per geometry kind
DECIDING_COUNTERS = ["bounds_rows_checked", "total_bounds_checked"]


def shards(tier, seed):
    subs = A.pick_subtypes(tier, seed, n_quick=3)
    groups = [["point", "multipoint"], ["line", "ring", "multiline"], ["polygon", "multipolygon"]]
    out = []
    n = 80 if tier == "quick" else 900
    for kinds in groups:
        for b in ("J", "B"):
            out.append({"name": f"{'+'.join(kinds)}-{b}", "build": b,
                        "params": {"kinds": kinds, "subtypes": subs, "cases": n if b == "J" else n // 2,
                                   "dask_every": 10 if tier == "quick" else 25}})
    return out


def _eq(a, b):
    a, b = float(a), float(b)
    return (a != a and b != b) or a == b


def _row_eq(r, e):
    return len(r) == len(e) and all(_eq(x, y) for x, y in zip(r, e))


def total_ref(kind, elements):
    nan = float("nan")
    xs, ys = [], []
    for el in elements:
        if el is None:
            continue
        c = gg.coords_of(kind, el)
        xs += [v for v in c[0::2] if math.isfinite(v)]
        ys += [v for v in c[1::2] if math.isfinite(v)]
    return ((min(xs) if xs else nan), (min(ys) if ys else nan),
            (max(xs) if xs else nan), (max(ys) if ys else nan))


def gen_case(rng, kind, subtype):
    r = rng.random()
    n = 0 if r < 0.06 else (1 if r < 0.15 else int(rng.integers(2, 12)))
    mode = rng.random()
    if mode < 0.15:
        els = [None] * n                                # all missing
    elif mode < 0.25:
        forms = gg.empty_elements(kind) or [None]
        els = [forms[int(rng.integers(len(forms)))] for _ in range(n)]
    else:
        els = [gg.soup_element(rng, kind, subtype, special_p=0.1 if rng.random() < 0.5 else 0.0)
               for _ in range(n)]
    return {"kind": kind, "subtype": subtype, "elements": els,
            "formseed": int(rng.integers(2 ** 31))}


def check_case(ctx, case, with_dask=False):
    from spatialpandas import GeoSeries
    from spatialpandas.spatialindex import HilbertRtree
    kind, subtype, els = case["kind"], case["subtype"], case["elements"]
    rng = np.random.default_rng(case["formseed"])
    nontrivial = any(not gg.is_inert(kind, e) for e in els)
    has_missing = any(e is None for e in els)
    has_empty = any(e is not None and gg.is_inert(kind, e) for e in els)

    def rec_raise(where, e, tb, form):
        if exc_in_repo(tb) or isinstance(e, IndexError):
            flags = ("missing" if has_missing else "") + ("+empty" if has_empty else "")
            ctx.violation("raised", f"{where}:{kind}:{flags or 'plain'}:{type(e).__name__}",
                          {"kind": kind, "subtype": subtype, "form": form, "elements": els},
                          observed=short_exc(e), case=case, msg=tb[-1500:])
            return True
        raise e

    ok, forms, tb = ctx.guarded(A.all_forms, kind, els, subtype, rng)
    if not ok:
        return rec_raise("construct", forms, tb, "forms")
    for form, arr in forms:
        back = gg.pylist(arr)
        if len(back) != len(els) or not all(gg.same_value(a, b) for a, b in zip(back, els)):
            # float32 etc. round on construction: use what the array really holds
            if form == "direct" and len(back) == len(els):
                pass
            elif form != "direct":
                ctx.count("form_values_differ")      # selection laws are C16's business
                continue
        vals = back
        ctx.case([kind, subtype, vals, form], nontrivial=nontrivial)
        ctx.sig(kind, subtype, form, "missing" if has_missing else "-",
                "empty" if has_empty else "-", "n0" if not els else "n+")
        # ---- bounds ------------------------------------------------------------------
        # (a caller may write into the arrays it was handed: the answers judged below come afterwards)
        for g_ in (lambda: arr.bounds, lambda: arr.total_bounds, lambda: arr.total_bounds_x, lambda: arr.total_bounds_y):
            ok, v_, tb = ctx.guarded(g_)
            if ok:
                ctx.count("caller_written_results", scribble(v_))
        ok, b, tb = ctx.guarded(lambda: arr.bounds)
        if not ok:
            rec_raise("bounds", b, tb, form)
        else:
            b = np.asarray(b)
            if b.shape != (len(vals), 4):
                ctx.violation("bounds-shape", f"bounds:{kind}:shape",
                              {"kind": kind, "elements": vals}, expected=[len(vals), 4],
                              observed=list(b.shape), case=case)
            else:
                for i, el in enumerate(vals):
                    ctx.count("bounds_rows_checked")
                    e = og.bounds_ref(kind, el)
                    if not _row_eq(b[i], e):
                        inert = "missing" if el is None else ("empty" if gg.is_inert(kind, el) else "plain")
                        ctx.violation("bounds-row", f"bounds:{kind}:{inert}",
                                      {"kind": kind, "subtype": subtype, "form": form,
                                       "element": el, "index": i, "elements": vals},
                                      expected=list(e), observed=b[i].tolist(), case=case)
                        break
        # ---- total bounds ----------------------------------------------------------------
        tref = total_ref(kind, vals)
        for name, idx in (("total_bounds", (0, 1, 2, 3)), ("total_bounds_x", (0, 2)),
                          ("total_bounds_y", (1, 3))):
            ok, t, tb = ctx.guarded(lambda: getattr(arr, name))
            if not ok:
                rec_raise(name, t, tb, form)
                continue
            ctx.count("total_bounds_checked")
            e = [tref[k] for k in idx]
            if not _row_eq(list(t), e):
                flags = ("missing" if has_missing else "") + ("+empty" if has_empty else "")
                ctx.violation("total-bounds", f"{name}:{kind}:{flags or 'plain'}",
                              {"kind": kind, "subtype": subtype, "form": form, "elements": vals},
                              expected=e, observed=[float(v) for v in t], case=case)
        # ---- GeoSeries -------------------------------------------------------------------------
        if form in ("direct", "sliced"):
            idx = [f"k{i}" for i in range(len(vals))]
            ok, gs, tb = ctx.guarded(lambda: GeoSeries(arr, index=idx))
            if ok:
                ok, gb, tb = ctx.guarded(lambda: gs.bounds)
                if not ok:
                    rec_raise("geoseries.bounds", gb, tb, form)
                else:
                    ctx.count("geoseries_checked")
                    good = (list(gb.index) == idx and list(gb.columns) == ["x0", "y0", "x1", "y1"]
                            and all(_row_eq(gb.values[i], og.bounds_ref(kind, el))
                                    for i, el in enumerate(vals)))
                    if not good:
                        ctx.violation("bounds-row", f"geoseries.bounds:{kind}",
                                      {"kind": kind, "elements": vals},
                                      expected=[list(og.bounds_ref(kind, el)) for el in vals],
                                      observed=gb.values.tolist(), case=case)
                ok, gt, tb = ctx.guarded(lambda: gs.total_bounds)
                if not ok:
                    rec_raise("geoseries.total_bounds", gt, tb, form)
                elif not _row_eq(list(gt), list(tref)):
                    ctx.violation("total-bounds", f"geoseries.total_bounds:{kind}",
                                  {"kind": kind, "elements": vals}, expected=list(tref),
                                  observed=[float(v) for v in gt], case=case)
            # spatial index total bounds = same numbers
            if len(vals) > 0:
                ok, sb, tb = ctx.guarded(lambda: arr.copy().sindex.total_bounds)
                if not ok:
                    rec_raise("sindex.total_bounds", sb, tb, form)
                else:
                    ctx.count("sindex_total_checked")
                    if not _row_eq(list(sb), list(tref)):
                        flags = ("missing" if has_missing else "") + ("+empty" if has_empty else "")
                        ctx.violation("total-bounds",
                                      f"sindex.total_bounds:{kind}:{flags or 'plain'}",
                                      {"kind": kind, "subtype": subtype, "elements": vals},
                                      expected=list(tref), observed=[float(v) for v in sb],
                                      case=case)
    if with_dask and len(els) > 0:
        import dask.dataframe as dd
        from spatialpandas import GeoDataFrame
        arr = forms[0][1]
        vals = gg.pylist(arr)
        tref = total_ref(kind, vals)
        npart = int(rng.integers(1, min(4, len(vals)) + 1))
        uid = int(rng.integers(2 ** 40))
        df = GeoDataFrame({"g": arr, "uid": np.arange(len(vals)) + uid})
        ok, res, tb = ctx.guarded(
            lambda: (lambda d: (d.geometry.total_bounds, d.geometry.partition_bounds,
                                d.geometry.bounds.compute(), [p.compute() for p in d.to_delayed()]))
            (dd.from_pandas(df, npartitions=npart)))
        if ok and len(vals) >= 3:
            # a row filter must not inherit the parent's cached partition bounds
            k0 = len(vals) // 3
            okf, rf, tbf = ctx.guarded(
                lambda: (lambda d: (d.partition_sindex, d[d["uid"] >= uid + k0]))(dd.from_pandas(df, npartitions=npart))[1]
                .geometry.total_bounds)
            if not okf:
                rec_raise("dask.filtered.total_bounds", rf, tbf, "dask")
            else:
                ctx.count("dask_filtered_checked")
                ef = total_ref(kind, vals[k0:])
                if not _row_eq(list(rf), list(ef)):
                    ctx.violation("total-bounds", f"dask.total_bounds-after-row-filter:{kind}:stale-cache",
                                  {"kind": kind, "elements": vals, "kept_from": k0}, expected=list(ef),
                                  observed=[float(v) for v in rf], case=case)
        if not ok:
            rec_raise("dask.total_bounds", res, tb, "dask")
        else:
            dt, pb, db, parts = res
            ctx.count("dask_checked")
            ctx.sig(kind, subtype, "dask", f"np{npart}")
            if not _row_eq(list(dt), list(tref)):
                flags = ("missing" if has_missing else "") + ("+empty" if has_empty else "")
                ctx.violation("total-bounds", f"dask.total_bounds:{kind}:{flags or 'plain'}",
                              {"kind": kind, "elements": vals, "npartitions": npart},
                              expected=list(tref), observed=[float(v) for v in dt], case=case)
            pos = 0
            for k, part in enumerate(parts):
                pv = vals[pos:pos + len(part)]
                pos += len(part)
                e = total_ref(kind, pv)
                if not _row_eq(list(pb.iloc[k].values), list(e)):
                    ctx.violation("total-bounds", f"dask.partition_bounds:{kind}",
                                  {"kind": kind, "partition": pv}, expected=list(e),
                                  observed=pb.iloc[k].values.tolist(), case=case)
            if not all(_row_eq(db.values[i], og.bounds_ref(kind, el)) for i, el in enumerate(vals)):
                ctx.violation("bounds-row", f"dask.bounds:{kind}", {"kind": kind, "elements": vals},
                              expected=[list(og.bounds_ref(kind, el)) for el in vals],
                              observed=db.values.tolist(), case=case)
    if len(ctx.samples) < 4 and els:
        ctx.sample({"kind": kind, "subtype": subtype, "elements": els[:4],
                    "total_bounds_ref": list(total_ref(kind, els))})


def run(ctx, spec):
    p = spec["params"]
    k = 0
    for kind in p["kinds"]:
        for subtype in p["subtypes"]:
            for _ in range(p["cases"]):
                case = gen_case(ctx.rng, kind, subtype)
                k += 1
                wd = (k % p["dask_every"] == 0)
                case["with_dask"] = wd
                check_case(ctx, case, with_dask=wd)


def replay(ctx, v):
    check_case(ctx, v["case"], with_dask=bool(v["case"].get("with_dask")))
