"""C06 - a Dask geo frame answers exactly like the pandas frame it represents.

Client-boundary monitor: for every Dask object handed out, the monitor holds its pandas twin
(rows matched through the unique row ids, in the Dask frame's own row order, same active
geometry) and checks the computed result of every operation against the same operation on
the twin: ordered comparison for cx / bounds / area / length / intersects_bounds, multiset
for sjoin, whole-partition containment for cx_partitions."""
import os
import shutil

import numpy as np
import pandas as pd

from .. import gen_frames as gf
from .. import gen_geom as gg
from ..ctx import exc_in_repo, short_exc

RULE = ("cases = (frame with 2 geometry columns (active one not first), provenance in {from_pandas, "
        "row filtering (empty partitions), set_geometry, pack_partitions, to_parquet + "
        "read_parquet_dask with/without geometry= and bounds=, pack_partitions_to_parquet}, "
        "1..8 partitions incl. empty, all-missing and fully covered partitions, operation in "
        "{cx, cx_partitions, bounds, total_bounds, area, length, intersects_bounds, sjoin inner/left}, "
        "box of positive area); one evaluation = one (frame, provenance, operation) comparison; "
        "non-trivial = >= 2 partitions and >= 1 selected row; distinct = hash of (frame, provenance, "
        "partitioning, operation, box)")
ASSUMPTIONS = ["pandas operations are decided by C01-C05, C13, C14; here only Dask == pandas",
               "synchronous scheduler (schedules are C18's business)"]
USE_CONTRACTS = True      # in-situ icontract monitors (vmon/contracts.py)
SPLIT_KINDS = True         # thorough tier: one shard per geometry kind
DECIDING_COUNTERS = ["ops_checked"]

PROVS = ["from_pandas", "filter", "cached-filter", "set_geometry", "build_sindex", "pack_partitions", "parquet",
         "parquet-geometry", "parquet-bounds", "parquet-filter", "pack_to_parquet", "parquet-mixed"]


def shards(tier, seed):
    n = 14 if tier == "quick" else 200
    out = []
    for kinds in (["point"], ["multipoint", "line", "ring"], ["multiline", "polygon", "multipolygon"]):
        for b in ("J", "B"):
            out.append({"name": f"{'+'.join(kinds)}-{b}", "build": b,
                        "params": {"kinds": kinds, "cases": n if b == "J" else n // 2}})
    return out


def gen_case(rng, kind):
    n = int(rng.choice([2, 5, 9, 16, 30, 30]))
    # x grows with the row number, so that a row filter really shrinks the extent
    els = [gg.transform(gg.rand_element(rng, kind, 4), kind, 1, 3 * i + int(rng.integers(0, 3)),
                        int(rng.integers(0, 30))) for i in range(n)]
    ok_ = "line" if kind == "point" else "point"
    other = [gg.transform(gg.rand_element(rng, ok_, 4), ok_, 1, int(rng.integers(140, 170)),
                          int(rng.integers(0, 30))) for _ in range(n)]
    for _ in range(int(rng.integers(0, 3))):
        els[int(rng.integers(n))] = None
    if rng.random() < 0.3:
        k0 = int(rng.integers(0, n))
        for j in range(k0, min(n, k0 + max(2, n // 4))):
            els[j] = None                                       # maybe an all-missing partition
    if rng.random() < 0.3:
        emp = gg.empty_elements(kind)
        if emp:
            els[int(rng.integers(n))] = emp[int(rng.integers(len(emp)))]
    cols = [("other", ok_, "float64", other), ("shape", kind, "float64", els)]
    spec = gf.frame_spec(rng, cols, n, ["default", "named", "string"][int(rng.integers(3))])
    spec["geometry"] = "shape"
    boxes = []
    for _ in range(3):
        xs = np.sort(rng.integers(-2, 3 * n + 8, 2))
        ys = np.sort(rng.integers(-2, 36, 2))
        boxes.append([float(xs[0]), float(ys[0]), float(xs[1]) + 0.5, float(ys[1]) + 0.5])
    boxes.append([-5.0, -5.0, 130.0, 100.0])                    # every partition fully covered
    return {"spec": spec, "kind": kind, "prov": PROVS[int(rng.integers(len(PROVS)))],
            "npartitions": int(rng.choice([1, 2, 3, 4, 8, 12])), "boxes": boxes,
            "seed": int(rng.integers(2 ** 31))}


def _arr_eq(a, b):
    a, b = np.asarray(a), np.asarray(b)
    if a.shape != b.shape:
        return False
    if a.dtype.kind == "f" or b.dtype.kind == "f":
        return np.array_equal(a.astype(float), b.astype(float), equal_nan=True)
    return np.array_equal(a, b)


def check_case(ctx, case):
    import dask
    import dask.dataframe as dd
    from spatialpandas import GeoDataFrame, sjoin
    from spatialpandas.geometry import PolygonArray
    from spatialpandas.io import read_parquet_dask
    spec, kind, prov = case["spec"], case["kind"], case["prov"]
    root = os.path.join(ctx.scratch, f"c06-{case['seed']}")
    shutil.rmtree(root, ignore_errors=True)
    os.makedirs(root)
    w = {"kind": kind, "provenance": prov, "npartitions": case["npartitions"], "n": spec["n"]}

    def viol(clause, mech, exp=None, obs=None, extra=None):
        ctx.violation(clause, mech, {**w, **(extra or {})}, expected=exp, observed=obs, case=case)

    def guarded(where, fn):
        ok, r, tb = ctx.guarded(fn)
        if not ok:
            if exc_in_repo(tb) or "dask" in tb:
                ctx.violation("raised", f"dask-vs-pandas:{where}:{prov}:{type(r).__name__}", w,
                              observed=short_exc(r), case=case, msg=tb[-1500:])
                return None
            raise r
        return r
    try:
        df = gf.build_frame(spec)
        npart = max(1, min(case["npartitions"], len(df)))
        with dask.config.set(scheduler="synchronous"):
            base = dd.from_pandas(df, npartitions=npart, sort=False)
            act = "shape"
            if prov == "from_pandas":
                ddf = base
            elif prov in ("filter", "cached-filter"):
                if prov == "cached-filter":
                    # populate the per-partition caches of the parent first: a row filter must
                    # not inherit them
                    base.partition_sindex
                    base.geometry.partition_bounds
                # keep the rows in the middle of the x range: the extent of what remains shrinks
                thr = float(df["val"].quantile(0.3))
                thr2 = float(df["val"].quantile(0.8))
                ddf = base[(base["val"] >= thr) & (base["val"] <= thr2)]
            elif prov == "build_sindex":
                ddf = base.build_sindex(page_size=int(case["seed"] % 3) + 1)
            elif prov == "set_geometry":
                ddf = base.set_geometry("other")
                act = "other"
            elif prov == "pack_partitions":
                ddf = guarded("pack_partitions", lambda: base.pack_partitions(npartitions=npart, p=8))
            elif prov in ("parquet", "parquet-geometry", "parquet-bounds", "parquet-filter"):
                path = os.path.join(root, "d.parq")
                if guarded("to_parquet", lambda: (base.to_parquet(path), 1)[1]) is None:
                    return
                if prov == "parquet":
                    ddf = guarded("read", lambda: read_parquet_dask(path))
                    act = "other"                         # default: first geometry column
                elif prov == "parquet-geometry":
                    ddf = guarded("read", lambda: read_parquet_dask(path, geometry="shape"))
                elif prov == "parquet-filter":
                    # bounds read from the metadata must not survive a row filter
                    ddf = guarded("read", lambda: read_parquet_dask(path, geometry="shape"))
                    if ddf is not None:
                        thr = float(df["val"].quantile(0.3))
                        thr2 = float(df["val"].quantile(0.8))
                        ddf = ddf[(ddf["val"] >= thr) & (ddf["val"] <= thr2)]
                else:
                    bx = case["boxes"][0]
                    ddf = guarded("read", lambda: read_parquet_dask(path, geometry="shape",
                                                                    bounds=(bx[0], bx[1], bx[2], bx[3])))
            elif prov == "parquet-mixed":
                # two datasets read in one call, only one of them written with the spatial metadata
                h_ = max(1, len(df) // 2)
                pa_, pb_ = os.path.join(root, "a.parq"), os.path.join(root, "b.parq")
                fa = dd.from_pandas(df.iloc[:h_], npartitions=max(1, min(npart, h_)), sort=False)
                if guarded("to_parquet", lambda: (fa.to_parquet(pa_), 1)[1]) is None:
                    return
                paths_ = [pa_]
                if len(df) > h_:
                    fb = dd.from_pandas(df.iloc[h_:], npartitions=max(1, min(3, len(df) - h_)), sort=False)
                    if guarded("plain-to_parquet", lambda: (dd.to_parquet(fb, pb_, write_metadata_file=False), 1)[1]) is None:
                        return
                    paths_ = [pa_, pb_] if case["seed"] % 2 else [pb_, pa_]
                ddf = guarded("read", lambda: read_parquet_dask(paths_, geometry="shape"))
            else:
                path = os.path.join(root, "p.parq")
                ddf = guarded("pack_to_parquet", lambda: base.pack_partitions_to_parquet(
                    path, npartitions=npart, p=8))
                if ddf is not None:
                    ddf = guarded("set_geometry", lambda: ddf.set_geometry("shape"))
            if ddf is None:
                return
            # ---- the pandas twin: same rows (through rid), the Dask frame's own order and index ----
            parts = guarded("materialise", lambda: list(dask.compute(*ddf[["rid", "val"]].to_delayed())))
            if parts is None:
                return
            order = [r_ for pt in parts for r_ in pt["rid"].tolist()]
            idx = [v for pt in parts for v in pt.index.tolist()]
            by_rid = df.set_index("rid", drop=False)
            twin = GeoDataFrame(by_rid.loc[order].set_axis(pd.Index(idx, name=parts[0].index.name), axis=0)) \
                if order else df.iloc[:0]
            twin = twin.set_geometry(act) if len(twin) else twin
            if prov not in ("filter", "cached-filter", "parquet-filter", "parquet-bounds") and sorted(order) != sorted(df["rid"].tolist()):
                viol("rows", f"dask-vs-pandas:provenance-loses-rows:{prov}", len(df), len(order))
                return
            if ddf.geometry.name != act:
                viol("active-geometry", f"dask-vs-pandas:active-geometry:{prov}", act, ddf.geometry.name)
                return
            if len(twin) == 0:
                return
            nparts = len(parts)
            part_sets = [set(pt["rid"].tolist()) for pt in parts]
            empty_part = any(len(s) == 0 for s in part_sets)
            tkind = kind if act == "shape" else ("line" if kind == "point" else "point")

            def sig(op, extra="-"):
                ctx.count("ops_checked")
                ctx.sig(prov, f"np{min(nparts, 4)}", "empty-part" if empty_part else "-", op, kind, extra)
            # ---- per-row quantities -------------------------------------------------------------------
            for op, fd, fp in (
                    ("bounds", lambda: ddf.geometry.bounds.compute().values, lambda: twin.geometry.bounds.values),
                    ("area", lambda: ddf.geometry.area.compute().values, lambda: twin.geometry.area.values),
                    ("length", lambda: ddf.geometry.length.compute().values, lambda: twin.geometry.length.values),
                    ("total_bounds", lambda: np.asarray(ddf.geometry.total_bounds, dtype=float),
                     lambda: np.asarray(twin.geometry.total_bounds, dtype=float))):
                r = guarded(op, lambda: (fd(), fp()))
                if r is None:
                    continue
                sig(op)
                ctx.case([spec["cols"], prov, case["npartitions"], op], nontrivial=nparts >= 2)
                if not _arr_eq(r[0], r[1]):
                    viol("values", f"dask-vs-pandas:{op}:{'empty-partition' if empty_part else 'plain'}",
                         np.asarray(r[1]).tolist()[:8], np.asarray(r[0]).tolist()[:8])
            # a caller may write into the bounds table it was handed: the selections below come afterwards
            r = guarded("partition_bounds-handed-out", lambda: ddf.geometry.partition_bounds)
            if r is not None and len(r):
                try:
                    r.iloc[:, :] = 1.0e9
                    ctx.count("caller_written_results")
                except Exception:  # noqa: BLE001  (a read-only result is fine)
                    pass
            boxes_ = list(case["boxes"])
            if nparts >= 9:
                # boxes cut out of the extents of the last partitions: one of them is covered, its neighbour cut
                # (with 9+ partitions the selected partition numbers are no longer single digits)
                from ..props.c13 import total_ref
                for k_ in (nparts - 2, 7):
                    ea = list(total_ref(tkind, gg.pylist(twin[act].array[[i for i, r_ in enumerate(order) if r_ in part_sets[k_]]])))
                    eb = list(total_ref(tkind, gg.pylist(twin[act].array[[i for i, r_ in enumerate(order) if r_ in part_sets[k_ + 1]]])))
                    if ea[0] == ea[0] and eb[0] == eb[0]:
                        bq = [(ea[0] + ea[2]) / 2.0, min(ea[1], eb[1]) - 1.0, max(ea[2], eb[2]) + 1.0, max(ea[3], eb[3]) + 1.0]
                        if bq[0] < bq[2] and bq[1] < bq[3]:
                            boxes_.append(bq)
                            ctx.count("boxes_targeting_high_numbered_partitions")
            for bx in boxes_:
                x0, y0, x1, y1 = bx
                # the box with its corners in every order (C01: the answer does not depend on it)
                for cname, cb in (("", bx), (":reversed-corners", [x1, y1, x0, y0]), (":x-reversed", [x1, y0, x0, y1]),
                                  (":y-reversed", [x0, y1, x1, y0])):
                    r = guarded("intersects_bounds", lambda: (ddf.geometry.intersects_bounds(tuple(cb)).compute().values,
                                                              twin.geometry.intersects_bounds(tuple(bx)).values))
                    if r is not None:
                        sig("intersects_bounds" + cname)
                        if not _arr_eq(r[0], r[1]):
                            viol("values", "dask-vs-pandas:intersects_bounds" + cname, r[1].tolist()[:20],
                                 r[0].tolist()[:20], {"box": cb})
                for series in (False, True):
                    r = guarded("cx", lambda: ((ddf.geometry if series else ddf).cx[x0:x1, y0:y1].compute(),
                                               (twin.geometry if series else twin).cx[x0:x1, y0:y1]))
                    if r is None:
                        continue
                    gd, gp = r
                    if series:
                        got, exp = gg.pylist(gd.array), gg.pylist(gp.array)
                        same = len(got) == len(exp) and all(gg.same_value(a, b) for a, b in zip(got, exp)) \
                            and gd.index.tolist() == gp.index.tolist()
                        got_ids = gd.index.tolist()
                        exp_ids = gp.index.tolist()
                    else:
                        got_ids, exp_ids = gd["rid"].tolist(), gp["rid"].tolist()
                        same = got_ids == exp_ids and gf.frame_records(gd) == gf.frame_records(gp) \
                            and type(gd).__name__ == "GeoDataFrame"
                    covered = "-"
                    try:
                        c_, o_ = ddf.partition_sindex.covers_overlaps((x0, y0, x1, y1)) if not series else ([], [])
                        covered = "covered-partition" if len(c_) else "-"
                        if len(c_):
                            ctx.require("covered-partition-shortcut-taken", True)
                    except Exception:  # noqa: BLE001
                        pass
                    sig("cx-series" if series else "cx", covered)
                    ctx.case([spec["cols"], prov, case["npartitions"], "cx", series, bx],
                             nontrivial=nparts >= 2 and len(exp_ids) > 0)
                    if not same:
                        inert_in = any(gg.is_inert(tkind, e) for e in gg.pylist(twin[act].array))
                        viol("rows", f"dask-vs-pandas:cx:{'series' if series else 'frame'}:"
                             f"{'inert-rows' if inert_in else 'plain'}:{covered}:"
                             f"{'empty-partition' if empty_part else 'no-empty-partition'}",
                             exp_ids[:20], got_ids[:20], {"box": bx})
                # cx_partitions: whole partitions containing every intersecting row
                r = guarded("cx_partitions", lambda: (ddf.cx_partitions[x0:x1, y0:y1].compute()["rid"].tolist(),
                                                      twin.cx[x0:x1, y0:y1]["rid"].tolist()))
                if r is not None:
                    sig("cx_partitions")
                    got, need = set(r[0]), set(r[1])
                    if not need <= got:
                        viol("rows", "dask-vs-pandas:cx_partitions-misses-intersecting-row",
                             sorted(need)[:20], sorted(got)[:20], {"box": bx})
                    elif any(0 < len(s & got) < len(s) for s in part_sets) or len(r[0]) != len(got):
                        viol("rows", "dask-vs-pandas:cx_partitions-not-whole-partitions", None, sorted(got)[:20],
                             {"box": bx})
            # ---- sjoin (points on the left) ---------------------------------------------------------------------
            if tkind == "point":
                right = GeoDataFrame({"w": np.arange(3), "sq": PolygonArray(
                    [[[0, 0, 14, 0, 14, 14, 0, 14, 0, 0]], [[8, 8, 33, 8, 33, 33, 8, 33, 8, 8]],
                     [[90, 90, 91, 90, 91, 91, 90, 90]]], dtype="float64")},
                    index=pd.Index(["ra", "rb", "rc"], name="rname"))
                for how in ("inner", "left"):
                    r = guarded(f"sjoin-{how}", lambda: (sjoin(ddf, right, how=how).compute(),
                                                         sjoin(twin, right, how=how)))
                    if r is None:
                        continue
                    sig(f"sjoin-{how}")
                    a = sorted(gf.records_key(x) for x in gf.frame_records(r[0]))
                    b = sorted(gf.records_key(x) for x in gf.frame_records(r[1]))
                    ctx.case([spec["cols"], prov, case["npartitions"], "sjoin", how],
                             nontrivial=nparts >= 2 and len(r[1]) > 0)
                    if a != b or list(r[0].columns) != list(r[1].columns):
                        viol("rows", f"dask-vs-pandas:sjoin-{how}:{'empty-partition' if empty_part else 'plain'}",
                             {"rows": len(r[1]), "columns": list(r[1].columns)},
                             {"rows": len(r[0]), "columns": list(r[0].columns)})
            if len(ctx.samples) < 4:
                ctx.sample({"kind": kind, "provenance": prov, "partitions": nparts,
                            "partition_sizes": [len(s) for s in part_sets], "active": act,
                            "box": case["boxes"][0]})
    finally:
        shutil.rmtree(root, ignore_errors=True)


def run(ctx, spec):
    ctx.require("covered-partition-shortcut-taken", False)
    for kind in spec["params"]["kinds"]:
        for _ in range(spec["params"]["cases"]):
            check_case(ctx, gen_case(ctx.rng, kind))


def replay(ctx, v):
    check_case(ctx, v["case"])
