"""C10 - pack_partitions_to_parquet leaves a complete, clean, re-readable dataset.

Monitors: (1) final-state scan of the whole sandbox root against the exact expected listing,
(2) conservation over the event log of the recording filesystem passed as filesystem=
(created - removed - moved-away = final files), (3) row-multiset + Hilbert-order model for the
returned frame, for an independent read_parquet_dask(path) and for a pyarrow-only reading of
the part files.  Thorough tier: strace -f as an independent syscall-level recorder."""
import os
import shutil

import numpy as np

from .. import fsmon
from .. import gen_frames as gf
from .. import gen_geom as gg
from ..ctx import exc_in_repo, short_exc
from .c13 import total_ref

RULE = ("cases = (frame of 1..N rows with duplicate and missing geometries and 1-2 geometry columns, "
        "input partitioning, npartitions in 1..16 incl. more partitions than rows (every pattern of "
        "empty outputs), tempdir_format in {default, outside with {uuid}, outside without}, "
        "compression in {snappy, gzip, None}, previous dataset of larger / smaller size with "
        "overwrite=True); one evaluation = one call; non-trivial = call returned and >= 2 rows; "
        "distinct = hash of (frame, configuration)")
ASSUMPTIONS = ["flat tempdir formats whose parent directory exists beforehand, so every directory the "
               "call creates is one it promised to delete",
               "synchronous scheduler; the sandbox directory is used by nothing else during a run"]
USE_CONTRACTS = True      # in-situ icontract monitors (vmon/contracts.py)
SPLIT_KINDS = True         # thorough tier: one shard per geometry kind
DECIDING_COUNTERS = ["packs_returned", "fs_events"]

RETRY = dict(wait_fixed=1, stop_max_attempt_number=3)
MODES = ["default", "ext-uuid", "ext-nouuid", "ext-uuid-parent"]


def shards(tier, seed):
    n = 30 if tier == "quick" else 400
    out = []
    kinds = gg.KINDS
    for grp in ([kinds[0], kinds[2]], [kinds[1], kinds[4]], [kinds[5], kinds[6], kinds[3]]):
        for b in ("J", "B"):
            out.append({"name": f"{'+'.join(grp)}-{b}", "build": b,
                        "params": {"kinds": grp, "cases": n if b == "J" else n // 2}})
    if tier == "thorough":
        # independent syscall-level recorder: the whole shard runs under strace -f
        import tempfile
        log = os.path.join(tempfile.gettempdir(), f"vmon-strace-c10-{os.getpid()}-{seed}.log")
        out.append({"name": "strace-recorder", "build": "J", "timeout": 7000,
                    "prefix": ["strace", "-f", "-qq", "-e",
                               "trace=openat,open,creat,mkdir,mkdirat,rename,renameat,renameat2,unlink,unlinkat,rmdir",
                               "-o", log],
                    "env": {"VMON_STRACE_LOG": log},
                    "params": {"kinds": ["point", "polygon"], "cases": 25, "strace": True}})
    return out


def gen_case(rng, kind):
    n = int(rng.choice([1, 2, 3, 4, 6, 10, 17, 30, 30]))
    sc = int(rng.choice([1, 4]))
    els = [gg.transform(gg.rand_element(rng, kind, 5), kind, sc, int(rng.integers(0, 40)) * sc,
                        int(rng.integers(0, 40)) * sc) for _ in range(n)]
    if n > 2 and rng.random() < 0.4:
        els[1] = els[0]
    for _ in range(int(rng.integers(0, 3))):
        if n > 1:
            els[int(rng.integers(n))] = None
    cols = [("g1", kind, "float64", els)]
    if rng.random() < 0.5:
        ok_ = "point" if kind != "point" else "line"
        cols.append(("g2", ok_, "float64", [gg.rand_element(rng, ok_, 50) for _ in range(n)]))
        if rng.random() < 0.5:
            cols = cols[::-1]
    spec = gf.frame_spec(rng, cols, n, "default")
    spec["geometry"] = "g1"
    if rng.random() < 0.06:
        spec["reserved_named_columns"] = [["hilbert_distance"], ["_partition"]][int(rng.integers(2))]
    k = int(rng.integers(1, 17)) if rng.random() < 0.5 else int(rng.integers(1, max(2, n // 2) + 1))
    npin = int(rng.integers(1, 5)) if (n < 13 or rng.random() < 0.6) else int(rng.choice([11, 12, 13]))
    return {"spec": spec, "kind": kind, "npin": npin, "npartitions": k if npin < 11 else int(rng.integers(1, 4)),
            "p": int(rng.choice([2, 6, 10, 15, 17, 20])), "mode": MODES[int(rng.integers(len(MODES)))],
            "compression": ["snappy", "gzip", None][int(rng.integers(3))],
            "int_type": [None, None, "np.int64", "np.int32"][int(rng.integers(4))],
            "relative": bool(rng.random() < 0.12),
            "previous": [None, None, "larger", "smaller"][int(rng.integers(4))],
            "seed": int(rng.integers(2 ** 31))}


def tempdir_format(mode, root):
    if mode == "default":
        return None
    if mode == "ext-uuid":
        return os.path.join(root, "tmp", "t-{uuid}-{partition}")
    if mode == "ext-uuid-parent":
        return os.path.join(root, "tmp", "{uuid}", "t-{partition}")     # one {uuid} directory above all partitions
    return os.path.join(root, "tmp", "t-{partition}")


def expected_listing(nparts):
    exp = {f"part.{i}.parquet": "file" for i in range(nparts)}
    exp["_metadata"] = "file"
    exp["_common_metadata"] = "file"
    return exp


def check_rows(ctx, viol, frame, where, src, act, kind, p, w, case):
    """rows of *frame* (pandas) == input rows; index == Hilbert distance; sorted."""
    vals = gg.pylist(src[act].array)
    tb = list(total_ref(kind, vals))
    in_recs = gf.multiset([(0, r_[1]) for r_ in gf.frame_records(src)])
    out_recs = gf.multiset([(0, r_[1]) for r_ in gf.frame_records(frame)])
    if in_recs != out_recs:
        lost = sum((in_recs - out_recs).values())
        extra = sum((out_recs - in_recs).values())
        viol("conservation", f"pack_to_parquet:{where}:rows-{'lost' if lost else 'altered-or-duplicated'}",
             len(src), {"rows": len(frame), "lost": lost, "extra": extra})
        return False
    idx = frame.index.tolist()
    if idx and (min(idx) < 0 or max(idx) >= 4 ** p):
        viol("index", f"pack_to_parquet:{where}:index-outside-curve-range", [0, 4 ** p - 1],
             [int(min(idx)), int(max(idx))])
    if any(a > b for a, b in zip(idx, idx[1:])):
        viol("order", f"pack_to_parquet:{where}:not-hilbert-ordered", "non-decreasing", idx[:40])
    if tb[0] == tb[0] and tb[1] == tb[1]:
        exp = dict(zip(src["rid"].tolist(),
                       src[act].array.hilbert_distance(total_bounds=list(tb), p=p).tolist()))
        got = dict(zip(frame["rid"].tolist(), idx))
        bad = [r_ for r_ in exp if exp[r_] != got.get(r_)]
        if bad:
            viol("index", f"pack_to_parquet:{where}:index-not-hilbert-distance",
                 {str(r_): exp[r_] for r_ in bad[:5]}, {str(r_): got.get(r_) for r_ in bad[:5]})
    return True


def _as(v, how):
    """the counts as a caller may hold them: Python int, numpy int64 / int32 scalar"""
    return {"np.int64": np.int64, "np.int32": np.int32}.get(how, int)(v)


def check_case(ctx, case):
    import dask
    import dask.dataframe as dd
    from spatialpandas.io import read_parquet_dask
    spec, kind, mode = case["spec"], case["kind"], case["mode"]
    k, p = case["npartitions"], case["p"]
    root = os.path.join(ctx.scratch, f"c10-{case['seed']}")
    shutil.rmtree(root, ignore_errors=True)
    os.makedirs(os.path.join(root, "tmp"))
    path = os.path.join(root, "ds.parq")
    w = {"kind": kind, "n": spec["n"], "npartitions": k, "mode": mode, "previous": case["previous"],
         "compression": case["compression"], "npin": case["npin"]}

    def viol(clause, mech, exp=None, obs=None):
        ctx.violation(clause, mech, w, expected=exp, observed=obs, case=case)

    cwd0 = os.getcwd()
    lib_path, lib_root = path, root
    if case.get("relative") and not case.get("strace"):
        # the caller names the dataset and the temporary directories relative to its working directory
        os.chdir(ctx.scratch)
        lib_path, lib_root = os.path.relpath(path, ctx.scratch), os.path.relpath(root, ctx.scratch)
        ctx.count("relative_path_cases")
    try:
        df = gf.build_frame(spec)
        act = df.geometry.name
        with dask.config.set(scheduler="synchronous"):
            ddf = dd.from_pandas(df, npartitions=max(1, min(case["npin"], len(df))))
            if case["previous"]:
                # a previous dataset of another size at the path
                m = len(df) * 2 + 3 if case["previous"] == "larger" else 1
                rngp = np.random.default_rng(case["seed"])
                prev = gf.build_frame(gf.frame_spec(
                    rngp, [("g1", "point", "float64",
                            [[int(v) for v in rngp.integers(0, 50, 2)] for _ in range(m)])], m))
                dd.from_pandas(prev, npartitions=2).pack_partitions_to_parquet(
                    path, npartitions=7 if case["previous"] == "larger" else 1, p=4)
            fs = fsmon.MonFS()
            slog = os.environ.get("VMON_STRACE_LOG") if case.get("strace") else None
            if slog:
                os.mkdir(os.path.join(ctx.scratch, f"MARK-begin-{case['seed']}"))
            ok, res, tb = ctx.guarded(lambda: ddf.pack_partitions_to_parquet(
                lib_path, filesystem=fs, npartitions=_as(k, case.get("int_type")), p=_as(p, case.get("int_type")),
                compression=case["compression"],
                tempdir_format=tempdir_format(mode, lib_root), _retry_args=RETRY,
                overwrite=bool(case["previous"])))
            fs.armed = False
            ctx.count("fs_events", len(fs.events))
            if slog:
                os.mkdir(os.path.join(ctx.scratch, f"MARK-end-{case['seed']}"))
                from .. import straceparse
                ev = straceparse.parse(slog, os.path.join(ctx.scratch, f"MARK-begin-{case['seed']}"),
                                       os.path.join(ctx.scratch, f"MARK-end-{case['seed']}"))
                created, removed, renames = straceparse.summarize(ev)
                ctx.count("strace_syscalls", len(ev))
                ctx.count("strace_runs")
                noise = ("/proc/", "/sys/", "/dev/", "/tmp/numba", os.path.expanduser("~/.cache"))
                inside = os.path.realpath(root)
                outside = sorted({c for c in created if not os.path.realpath(c).startswith(inside)
                                  and not c.startswith(noise) and "__pycache__" not in c
                                  and not os.path.realpath(c).startswith(os.path.realpath(ctx.scratch) + "/MARK")})
                if outside:
                    ctx.violation("strace", f"pack_to_parquet:file-created-outside-the-sandbox:{mode}", w,
                                  expected=[], observed=outside[:10], case=case)
                moved_away = {a for a, _ in renames}
                moved_to = {b for _, b in renames}
                live = {c for c in set(created) | moved_to
                        if os.path.realpath(c).startswith(inside) and os.path.lexists(c)}
                if ok:
                    exp_live = {os.path.join(inside, "ds.parq", n_) for n_ in
                                expected_listing(len(fsmon.dataset_snapshot(path)["parts"]))}
                    exp_live |= {os.path.join(inside, "ds.parq")}
                    ghost = sorted(os.path.relpath(c, inside) for c in live
                                   if os.path.realpath(c) not in exp_live)
                    if mode == "ext-uuid-parent":
                        # the empty {uuid} directory above the per-partition directories is reported once, by the
                        # listing clause below (known finding F29); anything else still counts here
                        import re as _re
                        ghost = [g_ for g_ in ghost if not (_re.fullmatch(r"tmp/[0-9a-f-]{36}", g_)
                                                            and os.path.isdir(os.path.join(inside, g_))
                                                            and not os.listdir(os.path.join(inside, g_)))]
                    if ghost:
                        ctx.violation("strace", f"pack_to_parquet:syscall-log:created-and-still-present:{mode}", w,
                                      expected=[], observed=ghost[:10], case=case)
                    # what the recording filesystem saw must be a subset of what the kernel saw
                    fs_created, _, _ = fsmon.created_removed(fs.events)
                    unseen = sorted(os.path.relpath(c, inside) for c in fs_created
                                    if os.path.realpath(c) not in {os.path.realpath(x) for x in created}
                                    and os.path.realpath(c).startswith(inside) and not os.path.isdir(c))
                    ctx.extra.setdefault("fs_log_entries_without_syscall", 0)
                    ctx.extra["fs_log_entries_without_syscall"] += len(unseen)
            if not ok and spec.get("reserved_named_columns") and isinstance(res, ValueError) \
                    and spec["reserved_named_columns"][0] in str(res):
                # the frame uses the name of a helper column: refusing it loudly is fine, losing the
                # user's column silently is not
                ctx.count("evaluations")
                ctx.count("rejected_reserved_column_name")
                return
            if not ok:
                ctx.count("evaluations")
                ctx.count("raised")
                tree = fsmon.scan_tree(root)
                leftovers = sorted(t for t in tree if t.startswith("tmp/") or
                                   (t.startswith("ds.parq/part.") and tree[t] == "dir"))
                emptyparts = k > len(df)
                ctx.violation("raised", f"pack_to_parquet:raised:{mode}:"
                              f"{'empty-output-partitions' if emptyparts else 'all-nonempty'}:{type(res).__name__}",
                              {**w, "leftovers": leftovers[:10]}, observed=short_exc(res), case=case,
                              msg=tb[-1500:])
                return
            ctx.count("packs_returned")
            snap = fsmon.dataset_snapshot(path)
            nonempty = len(snap["parts"])
            pattern = "empty-outputs" if nonempty < k else "all-nonempty"
            ctx.case([spec["cols"][0]["elements"], case["npin"], k, p, mode, case["compression"],
                      case["previous"]], nontrivial=len(df) >= 2)
            ctx.sig(kind, mode, pattern, case["previous"] or "fresh", str(case["compression"]),
                    f"ngeo{len(spec['cols'])}", "missing" if any(v is None for v in spec["cols"][0]["elements"]) else "-")
            if nonempty < k:
                ctx.require("empty-output-partitions", True)
            # (1) final state of the whole sandbox root
            tree = fsmon.scan_tree(root)
            exp_tree = {"ds.parq/": "dir", "tmp/": "dir"}
            exp_tree.update({f"ds.parq/{n_}": t for n_, t in expected_listing(nonempty).items()})
            uuid_dirs = []
            if mode == "ext-uuid-parent":
                import re as _re
                uuid_dirs = [t for t in tree if _re.fullmatch(r"tmp/[0-9a-f-]{36}/", t)
                             and not any(u != t and u.startswith(t) for u in tree)]
                if uuid_dirs:
                    # the empty {uuid} directory above the per-partition temp directories is left behind
                    viol("dataset-listing", "pack_to_parquet:listing:ext-uuid-parent:empty-uuid-directory-left",
                         [], ["tmp/<uuid>/"])
                    tree = {t: v_ for t, v_ in tree.items() if t not in uuid_dirs}
            if tree != exp_tree:
                extra = sorted(set(tree) - set(exp_tree))
                missing = sorted(set(exp_tree) - set(tree))
                wrongtype = sorted(t for t in tree if t in exp_tree and tree[t] != exp_tree[t])
                kindx = ("placeholder-or-temp-left" if extra else "") + ("file-missing" if missing else "") + \
                        ("part-is-directory" if wrongtype else "")
                viol("dataset-listing", f"pack_to_parquet:listing:{mode}:{pattern}:{kindx}",
                     sorted(exp_tree), {"extra": extra[:10], "missing": missing[:10],
                                        "wrong_type": wrongtype[:10]})
            # (2) conservation over the event log
            created, removed, moved = fsmon.created_removed(fs.events)
            # (the log holds the paths as the library named them - possibly relative to the working directory)
            created = {os.path.abspath(c) for c in created}
            removed = {os.path.abspath(c) for c in removed}
            moved = [tuple(os.path.abspath(x) for x in m) for m in moved]
            final = {os.path.join(root, t.rstrip("/")) for t in tree}
            ctx.count("conservation_checked")
            ghosts = [c for c in created if os.path.exists(c) and os.path.relpath(c, root) not in
                      {t.rstrip("/") for t in exp_tree} and not c.startswith(os.path.join(root, "tmp") + "/..")]
            unexplained = [f for f in final if f not in created and f not in {m[1] for m in moved}
                           and os.path.relpath(f, root) not in ("tmp", "ds.parq")
                           and not any(f.startswith(c + "/") for c in created)]
            if ghosts:
                viol("conservation-log", f"pack_to_parquet:created-but-never-removed:{mode}:{pattern}",
                     [], [os.path.relpath(g, root) for g in ghosts][:10])
            if unexplained and not case["previous"]:
                viol("conservation-log", f"pack_to_parquet:file-created-behind-the-filesystem-object:{mode}",
                     [], [os.path.relpath(g, root) for g in unexplained][:10])
            # (3) rows: returned frame, independent read-back, pyarrow-only reading of the parts
            ok, ret, tb = ctx.guarded(lambda: res.compute())
            if not ok:
                ctx.violation("raised", f"pack_to_parquet:returned-frame-unreadable:{mode}:{pattern}", w,
                              observed=short_exc(ret), case=case, msg=tb[-1200:])
            else:
                check_rows(ctx, viol, ret, "returned-frame", df, act, kind, p, w, case)
                if type(res).__name__ != "DaskGeoDataFrame" or type(ret).__name__ != "GeoDataFrame":
                    viol("type", "pack_to_parquet:returned-type", "DaskGeoDataFrame",
                         [type(res).__name__, type(ret).__name__])
            ok, rb, tb = ctx.guarded(lambda: read_parquet_dask(path).compute())
            if not ok:
                ctx.violation("raised", f"pack_to_parquet:read-back-fails:{mode}:{pattern}", w,
                              observed=short_exc(rb), case=case, msg=tb[-1200:])
            else:
                check_rows(ctx, viol, rb, "read-back", df, act, kind, p, w, case)
            ids = [i for n_ in sorted(snap["parts"], key=lambda s: int(s.split(".")[1]))
                   for i in (snap["parts"][n_].get("ids") or [])]
            if sorted(ids) != sorted(df["rid"].tolist()):
                viol("conservation", f"pack_to_parquet:part-files:rows-lost-or-stale:{case['previous'] or 'fresh'}",
                     len(df), len(ids))
            names = sorted(snap["parts"], key=lambda s: int(s.split(".")[1]))
            if names != [f"part.{i}.parquet" for i in range(len(names))]:
                viol("numbering", "pack_to_parquet:parts-not-contiguous", None, names)
            if any(len(snap["parts"][n_].get("ids") or []) == 0 for n_ in names):
                viol("numbering", "pack_to_parquet:empty-part-file", None, names)
            if snap["metadata_row_groups"] != len(names):
                viol("metadata", "pack_to_parquet:_metadata-row-groups", len(names), snap["metadata_row_groups"])
            else:
                want_md = [[len(snap["parts"][n_].get("ids") or []), n_] for n_ in names]
                got_md = [[r_, os.path.basename(fp or "")] for r_, fp in (snap["metadata_detail"] or [])]
                if [g[0] for g in got_md] != [w_[0] for w_ in want_md] or \
                        any(g[1] and g[1] != w_[1] for g, w_ in zip(got_md, want_md)):
                    viol("metadata", "pack_to_parquet:_metadata-describes-other-files", want_md, got_md)
            if len(ctx.samples) < 4:
                ctx.sample({"kind": kind, "rows": len(df), "npartitions": k, "mode": mode,
                            "previous": case["previous"], "final_listing": sorted(snap["listing"]),
                            "fs_events": len(fs.events),
                            "event_ops_head": [e["op"] for e in fs.events[:12]]})
    except Exception as e:  # noqa: BLE001
        import traceback
        tb = traceback.format_exc()
        if exc_in_repo(tb) and "vmon/props/c10.py" not in tb.split("spatialpandas/")[-1]:
            ctx.violation("raised", f"pack_to_parquet:harness-path:{type(e).__name__}", w,
                          observed=short_exc(e), case=case, msg=tb[-1500:])
        else:
            raise
    finally:
        os.chdir(cwd0)
        shutil.rmtree(root, ignore_errors=True)


def run(ctx, spec):
    ctx.require("empty-output-partitions", False)
    for kind in spec["params"]["kinds"]:
        for _ in range(spec["params"]["cases"]):
            case = gen_case(ctx.rng, kind)
            if spec["params"].get("strace"):
                case["strace"] = True
            check_case(ctx, case)
    log = os.environ.get("VMON_STRACE_LOG")
    if spec["params"].get("strace") and log:
        try:
            os.unlink(log)
        except OSError:
            pass


def replay(ctx, v):
    check_case(ctx, v["case"])
