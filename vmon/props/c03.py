"""C03 - R-tree queries return exactly the intersecting / covered boxes.

Monitor on the real HilbertRtree: intersects / covers_overlaps / total_bounds answers are
compared with brute force over the constructor's input (snapshotted before the call), for
every (p, page_size) configuration of the same input, including NaN rows, ties with the
query edges, duplicates and ragged last pages; a structural walk of the tree is recorded as
diagnostic evidence only."""
import pickle

import numpy as np

from ..ctx import exc_in_repo, scribble, short_exc

RULE = ("cases = (box multiset, p, page_size, query): n in {0..70, 257, 1000, 5000}, d in {1,2,3}, "
        "integer-grid boxes (ties with query edges), duplicates, zero-extent boxes, all rows "
        "identical, NaN rows at first/last/whole-page/all positions, page_size in {1,2,3,5,7,n-1,"
        "n,n+1,64,512}, p in {1,2,5,10,15,20,31}, queries on grid and half-grid values "
        "(degenerate, disjoint, touching, covering everything); non-trivial = query overlapping "
        "the total extent; distinct = hash of (boxes, p, page_size, query)")
ASSUMPTIONS = [
    "a NaN row may be reported as an uncovered candidate (every consumer re-tests candidates "
    "exactly) but never as covered, never twice, and never changes the answer for defined rows",
    "queries have min <= max in every dimension (reversed queries are not promised)"]
DECIDING_COUNTERS = ["queries_checked", "total_bounds_checked"]


def shards(tier, seed):
    out = []
    trials = 100 if tier == "quick" else 6000
    for d in (1, 2, 3):
        for b in ("J", "B"):
            out.append({"name": f"d{d}-{b}", "build": b,
                        "params": {"d": d, "trials": trials if b == "J" else trials // 2,
                                   "big": (tier == "thorough") or d == 2}})
    return out


def gen_boxes(rng, n, d):
    lo = rng.integers(0, 7, (n, d))
    ext = rng.integers(0, 3, (n, d))
    b = np.hstack([lo, lo + ext]).astype(float)
    mode = rng.random()
    if n > 2 and mode < 0.15:
        b[:] = b[0]                                  # all rows identical
    elif n > 3 and mode < 0.4:
        k = int(rng.integers(1, n))
        b[rng.integers(0, n, k)] = b[int(rng.integers(n))]     # duplicates
    elif mode < 0.5:
        b[:, d:] = b[:, :d]                           # zero extent
    elif mode < 0.6 and n:
        b = b * float(2 ** int(rng.integers(1, 20))) - float(rng.integers(0, 1000))
    return b


def nan_pattern(rng, n, page):
    r = rng.random()
    idx = []
    if n == 0 or r < 0.35:
        return idx
    if r < 0.45:
        idx = [0]
    elif r < 0.55:
        idx = [n - 1]
    elif r < 0.7:
        k = min(n, max(1, page))
        s = int(rng.integers(0, n - k + 1))
        idx = list(range(s, s + k))                    # a whole page worth of rows
    elif r < 0.78:
        idx = list(range(n))                           # every row
    else:
        idx = sorted(set(int(v) for v in rng.integers(0, n, max(1, n // 4))))
    return idx


def gen_queries(rng, d, b, k):
    qs = []
    fin = b[~np.isnan(b).any(axis=1)] if len(b) else b
    lo_all = fin[:, :d].min(axis=0) if len(fin) else np.zeros(d)
    hi_all = fin[:, d:].max(axis=0) if len(fin) else np.ones(d)
    scale = max(1.0, float(np.max(hi_all - lo_all)) / 8.0)
    for _ in range(k):
        r = rng.random()
        if r < 0.1:
            q = np.concatenate([lo_all - 1, hi_all + 1])              # covers everything
        elif r < 0.2:
            q = np.concatenate([lo_all, hi_all])                       # exactly the extent
        elif r < 0.3:
            q = np.concatenate([hi_all + 5 * scale, hi_all + 6 * scale])   # disjoint
        elif r < 0.45 and len(fin):
            row = fin[int(rng.integers(len(fin)))]
            q = row.copy()                                             # exactly one box (ties)
            if rng.random() < 0.5:
                q[d:] = q[:d]                                          # degenerate at a corner
        else:
            qlo = lo_all + scale * (rng.integers(-2, 16, d) / 2.0)
            qe = scale * (rng.integers(0, 12, d) / 2.0) * rng.choice([0, 1, 1], d)
            q = np.concatenate([qlo, qlo + qe])
        qs.append([float(v) for v in q])
    return qs


def page_sizes(n):
    return sorted({1, 2, 3, 5, 7, max(1, n - 1), max(1, n), n + 1, 64, 512})


def gen_case(rng, d, n):
    b = gen_boxes(rng, n, d)
    ps = page_sizes(n)
    configs = [[int(rng.choice([1, 2, 5, 10, 15, 20, 31])), int(p_)] for p_ in ps]
    if n > 300:
        configs = [configs[i] for i in sorted(rng.choice(len(configs), 4, replace=False))]
    nan_rows = nan_pattern(rng, n, int(rng.choice(ps)))
    partial = bool(rng.random() < 0.2)
    for i in nan_rows:
        if partial and d > 1 and rng.random() < 0.5:
            k_ = int(rng.integers(0, d))            # undefined in one dimension only, any dimension
            b[i, k_] = np.nan
            b[i, d + k_] = np.nan
        else:
            b[i, :] = np.nan
    return {"d": d, "bounds": b.tolist(), "configs": configs,
            "queries": gen_queries(rng, d, b, 6 if n < 300 else 12)}


def brute(b, d, q):
    if len(b) == 0:
        z = np.zeros(0, dtype=bool)
        return z, z
    q = np.asarray(q)
    defined = ~np.isnan(b).any(axis=1)
    with np.errstate(invalid="ignore"):
        inter = np.all((b[:, d:] >= q[:d]) & (b[:, :d] <= q[d:]), axis=1) & defined
        cov = np.all((b[:, :d] >= q[:d]) & (b[:, d:] <= q[d:]), axis=1) & defined
    return inter, cov


def walk(tree, b, d):
    """Diagnostic structural walk (never verdict-bearing)."""
    info = {}
    try:
        keys = np.asarray(tree._keys)
        info["keys_are_distinct_rows"] = bool(len(np.unique(keys)) == len(keys)
                                             and (len(keys) == 0 or (keys.min() >= 0 and keys.max() < len(b))))
        bt = np.asarray(tree._bounds_tree)
        info["tree_nodes"] = int(bt.shape[0])
    except Exception as e:  # noqa: BLE001
        info["walk_error"] = short_exc(e)
    return info


def check_case(ctx, case):
    from spatialpandas.spatialindex import HilbertRtree
    d = case["d"]
    b = np.array(case["bounds"], dtype=float).reshape(-1, 2 * d)
    n = len(b)
    has_nan = bool(np.isnan(b).any()) if n else False
    defined = ~np.isnan(b).any(axis=1) if n else np.zeros(0, dtype=bool)
    dup = bool(n > 1 and len(np.unique(b[defined], axis=0)) < defined.sum())
    nan_cls = "nan-all" if (n and not defined.any()) else ("nan" if has_nan else "-")

    def rec_raise(where, e, tb):
        if exc_in_repo(tb) or isinstance(e, (IndexError, ZeroDivisionError)):
            ctx.violation("raised", f"rtree:{where}:{type(e).__name__}:{nan_cls}",
                          {"d": d, "n": n}, observed=short_exc(e), case=case, msg=tb[-1500:])
            return True
        raise e

    ref_answers = None
    for p, ps in case["configs"]:
        snapshot = b.copy()
        b_before = b.copy()
        handed = b.copy()
        ok, tree, tb = ctx.guarded(HilbertRtree, handed, p, ps)
        ctx.count("input_untouched_checked")
        if not np.array_equal(handed, b_before, equal_nan=True):
            b = handed.copy()
        # the caller reuses the array it built the index from: the index answers for the boxes it was built from
        if handed.size:
            handed[...] = -98765.5
        if not np.array_equal(b, b_before, equal_nan=True):
            ctx.violation("input-modified", "rtree:build-writes-into-callers-bounds",
                          {"d": d, "n": n, "page_size": ps, "p": p}, expected=b_before.tolist()[:10],
                          observed=b.tolist()[:10], case={**case, "configs": [[p, ps]]})
            b = b_before
        if not ok:
            rec_raise("build", tree, tb)
            continue
        if not np.array_equal(snapshot, b, equal_nan=True):
            ctx.violation("input-modified", "rtree:build:mutates-input", {"d": d, "n": n}, case=case)
        if ctx.counters.get("walks", 0) < 200:
            ctx.count("walks")
            info = walk(tree, b, d)
            for k, v in info.items():
                if v is False:
                    ctx.note(f"structural walk: {k} is False for n={n} page_size={ps}")
        rel = ("ps=1" if ps == 1 else "ps<n" if ps < n else "ps=n" if ps == n else "ps>n")
        # total bounds: union of the defined boxes, dimension by dimension
        ok, tbnd, tb = ctx.guarded(lambda: tree.total_bounds)
        if not ok:
            rec_raise("total_bounds", tbnd, tb)
        else:
            ctx.count("total_bounds_checked")
            with np.errstate(all="ignore"):
                import warnings
                with warnings.catch_warnings():
                    warnings.simplefilter("ignore")
                    exp = ([np.nanmin(b[:, k]) for k in range(d)] +
                           [np.nanmax(b[:, k + d]) for k in range(d)]) if n else [np.nan] * (2 * d)
            if len(tbnd) != 2 * d or not all((x != x and y != y) or x == y for x, y in zip(tbnd, exp)):
                ctx.violation("total-bounds", f"rtree:total_bounds:{nan_cls}",
                              {"d": d, "n": n, "page_size": ps, "p": p, "bounds": case["bounds"][:20]},
                              expected=[float(v) for v in exp], observed=[float(v) for v in tbnd],
                              case={**case, "configs": [[p, ps]]})
        answers = []
        held = None          # (arrays as returned by the previous query, copies taken at that time)
        for q in case["queries"]:
            inter, cov = brute(b, d, q)
            ok, gi, tb = ctx.guarded(tree.intersects, q)
            if not ok:
                rec_raise("intersects", gi, tb)
                break
            ok, gco, tb = ctx.guarded(tree.covers_overlaps, q)
            if not ok:
                rec_raise("covers_overlaps", gco, tb)
                break
            # an answer already handed out must not change when the index is queried again
            if held is not None:
                ctx.count("answers_rechecked_after_next_query")
                if any(not np.array_equal(np.asarray(a), b) for a, b in zip(held[0], held[1])):
                    ctx.violation("answer-mutated", f"rtree:earlier-answer-overwritten-by-next-query:{nan_cls}",
                                  {"d": d, "n": n, "page_size": ps, "p": p, "query": q},
                                  expected=[b.tolist()[:20] for b in held[1]],
                                  observed=[np.asarray(a).tolist()[:20] for a in held[0]],
                                  case={**case, "configs": [[p, ps]]})
                # ... and the caller may write into it: later answers are judged after that
                ctx.count("caller_written_results", scribble(held[0]))
            held = ([gi, gco[0], gco[1]], [np.array(gi, copy=True), np.array(gco[0], copy=True),
                                          np.array(gco[1], copy=True)])
            gi = np.asarray(gi).astype(np.int64)
            gc, go = (np.asarray(x).astype(np.int64) for x in gco)
            ctx.count("queries_checked")
            tie = bool(n and ((b[defined][:, :d] == np.asarray(q)[d:]).any()
                              or (b[defined][:, d:] == np.asarray(q)[:d]).any()))
            qcls = ("degenerate" if q[:d] == q[d:] else "covers-all" if (n and cov[defined].all() and defined.any())
                    else "disjoint" if not inter.any() else "partial")
            ctx.sig(f"d{d}", "n0" if n == 0 else "n1" if n == 1 else "n<=70" if n <= 70 else "n-big",
                    rel, nan_cls, "dup" if dup else "-", qcls, "tie" if tie else "-")
            nontrivial = bool(inter.any())
            ctx.case([case["bounds"] if n <= 70 else [n, float(np.nansum(b))], p, ps, q],
                     nontrivial=nontrivial)
            w = {"d": d, "n": n, "page_size": ps, "p": p, "query": q,
                 "bounds": case["bounds"] if n <= 40 else f"{n} rows"}
            small = {**case, "configs": [[p, ps]], "queries": [q]}

            def fail(clause, mech, exp, obs):
                ctx.violation(clause, f"rtree:{mech}:{nan_cls}:{'tie' if tie else 'no-tie'}:{rel}",
                              w, expected=exp, observed=obs, case=small)
            for name, got in (("intersects", gi), ("covers", gc), ("overlaps", go)):
                if len(np.unique(got)) != len(got):
                    fail("duplicate", f"{name}:row-twice", None, sorted(got.tolist()))
                if len(got) and (got.min() < 0 or got.max() >= n):
                    fail("range", f"{name}:row-out-of-range", [0, n - 1], sorted(got.tolist()))
            # NaN rows: never covered; allowed as uncovered candidates
            nan_rows = set(np.nonzero(~defined)[0].tolist())
            if nan_rows & set(gc.tolist()):
                fail("nan-covered", "covers:nan-row-covered", sorted(np.nonzero(cov)[0].tolist()),
                     sorted(gc.tolist()))
            gi_d = sorted(v for v in gi.tolist() if v not in nan_rows)
            gc_d = sorted(v for v in gc.tolist() if v not in nan_rows)
            go_d = sorted(v for v in go.tolist() if v not in nan_rows)
            ei = np.nonzero(inter)[0].tolist()
            ec = np.nonzero(cov & inter)[0].tolist()
            eo = np.nonzero(inter & ~cov)[0].tolist()
            if gi_d != ei:
                fail("intersects", "intersects:wrong-rows", ei, gi_d)
            if gc_d != ec:
                fail("covers", "covers:wrong-rows", ec, gc_d)
            if go_d != eo:
                fail("overlaps", "overlaps:wrong-rows", eo, go_d)
            answers.append((gi_d, gc_d, go_d))
        if ref_answers is None:
            ref_answers = answers
        elif answers != ref_answers and len(answers) == len(ref_answers):
            ctx.violation("config-dependence", f"rtree:answer-depends-on-p-or-page-size:{nan_cls}",
                          {"d": d, "n": n, "configs": case["configs"]}, case=case)
    # pickling keeps the answers
    if n and case["configs"]:
        p, ps = case["configs"][0]
        ok, r, tb = ctx.guarded(lambda: pickle.loads(pickle.dumps(HilbertRtree(b, p, ps))).intersects(case["queries"][0]))
        if not ok:
            rec_raise("pickle", r, tb)
        else:
            inter, _ = brute(b, d, case["queries"][0])
            nan_rows = set(np.nonzero(~defined)[0].tolist())
            if sorted(v for v in np.asarray(r).tolist() if v not in nan_rows) != np.nonzero(inter)[0].tolist():
                ctx.violation("intersects", f"rtree:pickled:wrong-rows:{nan_cls}", {"d": d, "n": n}, case=case)
    if len(ctx.samples) < 3 and 0 < n <= 8:
        q = case["queries"][0]
        inter, cov = brute(b, d, q)
        ctx.sample({"d": d, "bounds": case["bounds"], "query": q, "config": case["configs"][0],
                    "intersecting_rows": np.nonzero(inter)[0].tolist(),
                    "covered_rows": np.nonzero(cov & inter)[0].tolist()})


def run(ctx, spec):
    p = spec["params"]
    rng = ctx.rng
    sizes = list(range(0, 20)) + [23, 31, 32, 33, 47, 63, 64, 65, 70]
    for t in range(p["trials"]):
        n = int(sizes[t % len(sizes)]) if t < 2 * len(sizes) else int(rng.choice(sizes))
        check_case(ctx, gen_case(rng, p["d"], n))
    if p["big"]:
        for n in (257, 1000, 5000):
            check_case(ctx, gen_case(rng, p["d"], n))


def replay(ctx, v):
    check_case(ctx, v["case"])
