"""C08 - a geometry's Hilbert distance is the curve position of its bbox centre.

Monitor on the real GeometryArray.hilbert_distance / GeoSeries.hilbert_distance: range
[0, 4^p); equality with the reference cell (exact rational scaling, clamp, then the
independent pure-Python Hilbert reference) where the scaling arithmetic is exact;
metamorphic independence (permutation, singleton, slice, take, concatenation with
strangers, GeoSeries); every sequence type for total_bounds, which must come back
unmodified; degenerate extents."""
import math
from fractions import Fraction as Fr

import numpy as np

from .. import arrays as A
from .. import gen_geom as gg
from .. import oracle_geom as og
from .. import oracle_hilbert as oh
from ..ctx import exc_in_repo, scribble, short_exc, stable_hash

RULE = ("cases = (kind, subtype, element, total_bounds, total_bounds type, p): elements on the "
        "quarter grid inside, on the upper edge of, and outside an extent whose sides are powers "
        "of two (exact scaling) or arbitrary (range/independence only), degenerate in x and/or y, "
        "p in 1..31, total_bounds given as None/list/tuple/ndarray(float|int)/pandas Series/list "
        "of ints; non-trivial = element with finite bounds; distinct = hash of (kind, subtype, "
        "element, total_bounds, p)")
ASSUMPTIONS = ["reference equality only where (mid - lo) * 2^p / width is exact in float64 "
               "(width a power of two, quarter-grid coordinates)",
               "missing / empty rows: only the range clause applies"]
SPLIT_KINDS = True         # thorough tier: one shard per geometry kind
DECIDING_COUNTERS = ["range_checked", "reference_checked", "independence_checked"]

TB_TYPES = ["list", "tuple", "ndarray", "ndarray-int", "series", "list-int", "none"]


def shards(tier, seed):
    subs = A.pick_subtypes(tier, seed, n_quick=2)
    n = 120 if tier == "quick" else 5000
    groups = [["point", "multipoint", "line", "ring"], ["multiline", "polygon", "multipolygon"]]
    out = []
    for kinds in groups:
        for b in ("J", "B"):
            out.append({"name": f"{'+'.join(kinds)}-{b}", "build": b,
                        "params": {"kinds": kinds, "subtypes": subs, "cases": n}})
    return out


def gen_case(rng, kind, subtype):
    fl = np.dtype(subtype).kind == "f"
    p = int(rng.integers(1, 32))
    exact = bool(rng.random() < 0.7)
    if subtype in ("int16", "float32"):
        w, h = 2 ** int(rng.integers(0, 7)), 2 ** int(rng.integers(0, 7))
        ox, oy = int(rng.integers(-100, 100)), int(rng.integers(-100, 100))
    else:
        w, h = 2 ** int(rng.integers(0, 12)), 2 ** int(rng.integers(0, 12))
        ox, oy = int(rng.integers(-1000, 1000)), int(rng.integers(-1000, 1000))
    fine = 0
    if exact and fl and subtype == "float64" and rng.random() < 0.25:
        # extent far smaller than the coordinate magnitude (still a power of two: exact scaling)
        fine = int(rng.integers(3, 11))
    if not exact:
        w, h = int(rng.integers(1, 50)), int(rng.integers(1, 50))
    if fine:
        w = h = 2.0 ** -fine
    tb = [ox, oy, ox + w, oy + h]
    dg = int(rng.integers(10))
    if dg == 0:
        tb[2] = tb[0]
    elif dg == 1:
        tb[3] = tb[1]
    elif dg == 2:
        tb[2], tb[3] = tb[0], tb[1]
    # elements: coordinates on the quarter grid (floats) / integer grid, around the extent
    q = (4 * 2 ** fine) if fine else (4 if fl else 1)
    m = int(rng.integers(1, 8))
    els = []
    for _ in range(m):
        def cx():
            return int(rng.integers(q * ox - 8, int(q * (ox + w)) + 9)) / q
        def cy():
            return int(rng.integers(q * oy - 8, int(q * (oy + h)) + 9)) / q
        def flat_(k):
            out = []
            for _i in range(k):
                out += [cx(), cy()]
            return out if fl else [int(v) for v in out]
        if kind == "point":
            els.append(flat_(1))
        elif kind in ("multipoint", "line"):
            els.append(flat_(int(rng.integers(1, 4))))
        elif kind == "ring":
            f_ = flat_(3)
            els.append(f_ + f_[:2])
        elif kind in ("multiline", "polygon"):
            els.append([flat_(int(rng.integers(1, 4))) for _ in range(int(rng.integers(1, 3)))])
        else:
            els.append([[flat_(int(rng.integers(1, 4)))] for _ in range(int(rng.integers(1, 3)))])
    # an element exactly on the upper edges, one at the lower corner
    top = [tb[2], tb[3]] if fl else [int(tb[2]), int(tb[3])]
    bot = [tb[0], tb[1]]
    def wrap(pt):
        pt = [float(v) for v in pt] if fl else [int(v) for v in pt]
        if kind == "point":
            return pt
        if kind in ("multipoint", "line"):
            return pt + pt
        if kind == "ring":
            return pt * 4
        if kind in ("multiline", "polygon"):
            return [pt + pt]
        return [[pt + pt]]
    els.append(wrap(top))
    els.append(wrap(bot))
    # inert rows
    if rng.random() < 0.5:
        els.insert(int(rng.integers(0, len(els) + 1)), None)
    emp = gg.empty_elements(kind)
    if emp and rng.random() < 0.4:
        els.insert(int(rng.integers(0, len(els) + 1)), emp[int(rng.integers(len(emp)))])
    tbt = TB_TYPES[int(rng.integers(len(TB_TYPES)))]
    if fine and tbt in ("ndarray-int", "list-int"):
        tbt = "ndarray"                     # integer sequences cannot express a fractional extent
    return {"kind": kind, "subtype": subtype, "elements": els, "tb": tb, "tb_type": tbt, "p": p,
            "exact": exact, "seed": int(rng.integers(2 ** 31))}


def make_tb(tb, tbt):
    import pandas as pd
    if tbt == "list":
        return [float(v) for v in tb]
    if tbt == "tuple":
        return tuple(float(v) for v in tb)
    if tbt == "ndarray":
        return np.array(tb, dtype=np.float64)
    if tbt == "ndarray-int":
        return np.array(tb, dtype=np.int64)
    if tbt == "series":
        return pd.Series([float(v) for v in tb], index=["x0", "y0", "x1", "y1"])
    if tbt == "list-int":
        return [int(v) for v in tb]
    return None


def tb_snapshot(t):
    import pandas as pd
    if t is None:
        return None
    if isinstance(t, pd.Series):
        return ("series", t.tolist(), list(t.index))
    if isinstance(t, np.ndarray):
        return ("ndarray", t.tolist(), str(t.dtype))
    return (type(t).__name__, list(t))


def reference(bounds_row, tb, p):
    if any(isinstance(v, float) and math.isnan(v) for v in bounds_row):
        return None
    x0, y0, x1, y1 = [Fr(v) for v in tb]
    if x0 == x1:
        x1 += 1
    if y0 == y1:
        y1 += 1
    side = 2 ** p
    cs = []
    for lo, hi, a, b in ((x0, x1, bounds_row[0], bounds_row[2]), (y0, y1, bounds_row[1], bounds_row[3])):
        mid = (Fr(a) + Fr(b)) / 2
        c = (mid - lo) * side / (hi - lo)
        c = int(c) if c >= 0 else -int(-c)          # truncation toward zero
        cs.append(min(max(c, 0), side - 1))
    return oh.c2d(p, cs)


def check_case(ctx, case):
    from spatialpandas import GeoSeries
    kind, subtype, els, tb, tbt, p = (case[k] for k in ("kind", "subtype", "elements", "tb",
                                                         "tb_type", "p"))
    rng = np.random.default_rng(case["seed"])

    def rec_raise(where, e, tb_):
        if exc_in_repo(tb_) or isinstance(e, (IndexError, TypeError, ZeroDivisionError)):
            dg = ("degenerate" if (tb[0] == tb[2] or tb[1] == tb[3]) else "regular")
            ctx.violation("raised", f"hilbert_distance:{where}:{tbt}:{dg}:{type(e).__name__}",
                          {"kind": kind, "subtype": subtype, "tb": tb, "tb_type": tbt, "p": p},
                          observed=short_exc(e), case=case, msg=tb_[-1500:])
            return True
        raise e

    ok, arr, tb_ = ctx.guarded(gg.make_array, kind, els, subtype)
    if not ok:
        return rec_raise("construct", arr, tb_)
    vals = gg.pylist(arr)
    n = len(vals)
    if case["seed"] % 3 == 0:
        arr.build_sindex(page_size=int(case["seed"] % 4) + 1)     # a spatial index exists on the array
        ctx.count("arrays_with_built_index")
    own = None
    if tbt == "none":
        # default = the array's own total bounds (C13 decides those)
        own = [og.bounds_ref(kind, e) for e in vals if e is not None]
        xs0 = [b[0] for b in own if b[0] == b[0]]
        if not xs0:
            return
        eff_tb = [min(b[0] for b in own if b[0] == b[0]), min(b[1] for b in own if b[1] == b[1]),
                  max(b[2] for b in own if b[2] == b[2]), max(b[3] for b in own if b[3] == b[3])]
    else:
        eff_tb = list(tb)
    # a caller may write into the arrays it was handed before: the answer judged below comes afterwards
    for g_ in (lambda: arr.bounds, lambda: arr.total_bounds, lambda: arr.hilbert_distance(list(eff_tb), p=p)):
        ok, v_, tb_ = ctx.guarded(g_)
        if ok:
            ctx.count("caller_written_results", scribble(v_))
    arg = make_tb(tb, tbt)
    snap = tb_snapshot(arg)
    ok, got, tb_ = ctx.guarded(lambda: arr.hilbert_distance(arg, p=p) if arg is not None
                               else arr.hilbert_distance(p=p))
    if not ok:
        return rec_raise("call", got, tb_)
    got = np.asarray(got)
    ctx.count("result_form_checked")
    if got.dtype.kind not in "iu" or got.shape != (len(vals),):
        ctx.violation("form", f"hilbert_distance:result-dtype-or-shape:{'n0' if not len(vals) else 'n+'}",
                      {"kind": kind, "n": len(vals)}, expected=["integer", len(vals)],
                      observed=[str(got.dtype), list(got.shape)], case=case)
        return
    # the caller's object is untouched
    ctx.count("mutation_checked")
    if tb_snapshot(arg) != snap:
        ctx.violation("argument-modified", f"hilbert_distance:mutates-total_bounds:{tbt}",
                      {"tb": tb, "tb_type": tbt}, expected=snap, observed=tb_snapshot(arg), case=case)
    if got.shape != (n,) or got.dtype.kind not in "iu":
        ctx.violation("shape", "hilbert_distance:result-shape", {"n": n}, expected=[n, "int"],
                      observed=[list(got.shape), str(got.dtype)], case=case)
        return
    dgx, dgy = eff_tb[0] == eff_tb[2], eff_tb[1] == eff_tb[3]
    wx = 1 if dgx else eff_tb[2] - eff_tb[0]
    wy = 1 if dgy else eff_tb[3] - eff_tb[1]
    pow2 = all(Fr(w).numerator > 0 and (Fr(w).numerator & (Fr(w).numerator - 1)) == 0
               and (Fr(w).denominator & (Fr(w).denominator - 1)) == 0 for w in (wx, wy))
    for i, el in enumerate(vals):
        b = og.bounds_ref(kind, el)
        finite = all(v == v for v in b)
        ctx.count("range_checked")
        ctx.case_hash(stable_hash([kind, subtype, el, eff_tb, p]), nontrivial=finite)
        if not (0 <= int(got[i]) < 4 ** p):
            ctx.violation("range", f"hilbert_distance:out-of-range:{'finite' if finite else 'inert'}",
                          {"kind": kind, "element": el, "tb": eff_tb, "p": p},
                          expected=[0, 4 ** p - 1], observed=int(got[i]), case=case)
            continue
        if finite and pow2 and subtype != "float32":
            r = reference(b, eff_tb, p)
            ctx.count("reference_checked")
            mid = ((Fr(b[0]) + Fr(b[2])) / 2, (Fr(b[1]) + Fr(b[3])) / 2)
            pos = ("upper-edge" if (mid[0] == eff_tb[2] or mid[1] == eff_tb[3]) else
                   "outside" if not (eff_tb[0] <= mid[0] <= eff_tb[2] and eff_tb[1] <= mid[1] <= eff_tb[3])
                   else "inside")
            ctx.sig(kind, subtype, tbt, pos, "dgx" if dgx else "-", "dgy" if dgy else "-",
                    f"p{p // 8}x")
            if r != int(got[i]):
                ctx.violation("reference", f"hilbert_distance:wrong-cell:{pos}:"
                              f"{'degenerate' if (dgx or dgy) else 'regular'}",
                              {"kind": kind, "subtype": subtype, "element": el, "bounds": list(b),
                               "tb": eff_tb, "p": p}, expected=r, observed=int(got[i]), case=case)
        else:
            ctx.sig(kind, subtype, tbt, "range-only")
    # ---- independence (metamorphic, any coordinates) ----------------------------------------------
    ftb = [float(v) for v in eff_tb]
    def hd(a):
        return np.asarray(a.hilbert_distance(list(ftb), p=p))
    ok, base, tb_ = ctx.guarded(hd, arr)
    if not ok:
        return rec_raise("explicit-list", base, tb_)
    if tbt != "none" and not np.array_equal(base, got):
        ctx.violation("tb-type-dependence", f"hilbert_distance:depends-on-sequence-type:{tbt}",
                      {"tb": tb, "tb_type": tbt, "p": p}, expected=base.tolist(), observed=got.tolist(),
                      case=case)
    if tbt == "none" and not np.array_equal(base, got):
        ctx.violation("default-bounds", "hilbert_distance:default-total_bounds",
                      {"elements": vals, "p": p}, expected=base.tolist(), observed=got.tolist(), case=case)
    perm = rng.permutation(n)
    strangers = [gg.rand_element(rng, kind, 6) for _ in range(3)]
    checks = []
    try:
        checks.append(("permutation", hd(gg.make_array(kind, [vals[i] for i in perm], subtype)), base[perm]))
        checks.append(("singletons", np.array([int(hd(gg.make_array(kind, [vals[i]], subtype))[0])
                                               for i in range(n)]), base))
        k = int(rng.integers(0, n))
        checks.append(("slice", hd(arr[k:]), base[k:]))
        checks.append(("take", hd(arr.take(perm)), base[perm]))
        # results of the pieces of a partitioned array, put together again (an empty piece included)
        checks.append(("pieces-concatenated", np.concatenate([hd(arr[:0]), hd(arr[:k]), hd(arr[k:k]), hd(arr[k:])]), base))
        cat = gg.array_class(kind)._concat_same_type(
            [gg.make_array(kind, strangers, subtype), arr, gg.make_array(kind, strangers[:1], subtype)])
        checks.append(("concat-strangers", hd(cat)[3:3 + n], base))
        gs = GeoSeries(arr, index=[f"h{i}" for i in range(n)])
        r = gs.hilbert_distance(total_bounds=list(ftb), p=p)
        checks.append(("geoseries", np.asarray(r.values), base))
        if list(r.index) != list(gs.index):
            ctx.violation("independence", "hilbert_distance:geoseries-index", {}, case=case)
    except Exception as e:  # noqa: BLE001
        import traceback
        if not rec_raise("independence", e, traceback.format_exc()):
            raise
        return
    for name, a, b_ in checks:
        ctx.count("independence_checked")
        if np.asarray(a).dtype.kind not in "iu":
            ctx.violation("form", f"hilbert_distance:result-dtype:{name}", {"kind": kind, "p": p}, expected="integer",
                          observed=str(np.asarray(a).dtype), case=case)
            continue
        if not np.array_equal(np.asarray(a), np.asarray(b_)):
            ctx.violation("independence", f"hilbert_distance:depends-on-{name}",
                          {"kind": kind, "subtype": subtype, "elements": vals, "tb": eff_tb, "p": p},
                          expected=np.asarray(b_).tolist(), observed=np.asarray(a).tolist(), case=case)
    if len(ctx.samples) < 4:
        ctx.sample({"kind": kind, "subtype": subtype, "element": vals[0], "total_bounds": eff_tb,
                    "tb_type": tbt, "p": p, "distance": int(got[0])})


def run(ctx, spec):
    p = spec["params"]
    for kind in p["kinds"]:
        for subtype in p["subtypes"]:
            for _ in range(p["cases"]):
                check_case(ctx, gen_case(ctx.rng, kind, subtype))


def replay(ctx, v):
    check_case(ctx, v["case"])
