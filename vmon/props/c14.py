"""C14 - length, area and boundary are the exact measures of each element.

Monitor: the real length / area getters (array, scalar, GeoSeries forms) and the boundary
of polygon / multipolygon arrays are compared with exact integer shoelace areas, exact
(rational) or 50-digit reference lengths, and the ring lists read back with to_pylist;
plus translation invariance and agreement across provenance forms."""
import math
from fractions import Fraction as Fr

import numpy as np

from .. import arrays as A
from .. import gen_geom as gg
from .. import oracle_geom as og
from ..ctx import exc_in_repo, scribble, short_exc

RULE = ("cases = (kind, subtype, element, measure, form); elements from hostile generators: "
        "rectilinear and star polygons (both orientations, holes, nested/touching parts), "
        "degenerate rings (<3 vertices, collinear, repeated vertices), Pythagorean and oblique "
        "lines, single-vertex lines, NaN-broken lines (float subtypes), empty forms and missing "
        "elements, after exact stretch/translation; non-trivial = element with at least one "
        "segment; distinct = hash of (kind, subtype, element)")
ASSUMPTIONS = ["area clause on closed rings with integer coordinates inside the exactness domain",
               "length compared exactly when every segment length is rational, to 1e-12 relative "
               "otherwise (float64 / integer subtypes); float32 arrays compute in float32: exact "
               "cases only"]
SPLIT_KINDS = True         # thorough tier: one shard per geometry kind
DECIDING_COUNTERS = ["length_checked", "area_checked", "boundary_checked"]

GROUPS = [["point", "multipoint", "line", "ring"], ["multiline", "polygon"], ["multipolygon"]]


def shards(tier, seed):
    subs = A.pick_subtypes(tier, seed, n_quick=3)
    n = 120 if tier == "quick" else 1200
    out = []
    for kinds in GROUPS:
        for b in ("J", "B"):
            out.append({"name": f"{'+'.join(kinds)}-{b}", "build": b,
                        "params": {"kinds": kinds, "subtypes": subs,
                                   "cases": n if b == "J" else n // 2}})
    return out


PYTH = [(3, 4), (4, 3), (5, 12), (12, 5), (8, 15), (6, 8), (0, 7), (7, 0), (0, 0)]


def pyth_line(rng, k):
    x, y = int(rng.integers(0, 10)), int(rng.integers(0, 10))
    pts = [(x, y)]
    for _ in range(k):
        dx, dy = PYTH[int(rng.integers(len(PYTH)))]
        x += dx * int(rng.choice([-1, 1]))
        y += dy * int(rng.choice([-1, 1]))
        pts.append((x, y))
    return gg.flat(pts)


def degenerate_ring(rng):
    r = int(rng.integers(5))
    a = (int(rng.integers(0, 6)), int(rng.integers(0, 6)))
    b = (int(rng.integers(0, 6)), int(rng.integers(0, 6)))
    if r == 0:
        return gg.flat([a])                       # single vertex
    if r == 1:
        return gg.flat([a, a])                    # closed, one distinct vertex
    if r == 2:
        return gg.flat([a, b, a])                 # two distinct vertices
    if r == 3:
        c = (2 * b[0] - a[0], 2 * b[1] - a[1])
        return gg.flat([a, b, c, a])              # collinear, zero area
    return gg.flat([a, b, b, a])                  # repeated vertex, zero area


def gen_element(rng, kind, subtype, G=5):
    fl = np.dtype(subtype).kind == "f"
    r = rng.random()
    if r < 0.1:
        return None
    if r < 0.18 and kind != "point":
        forms = gg.empty_elements(kind)
        return forms[int(rng.integers(len(forms)))]
    if kind in ("line", "ring", "multiline") and r < 0.45:
        mk = lambda: pyth_line(rng, int(rng.integers(0, 5)))        # noqa: E731
        if kind == "multiline":
            return [mk() for _ in range(int(rng.integers(1, 4)))]
        ln = mk()
        return ln + ln[:2] if kind == "ring" else ln
    if kind in ("line", "multiline") and fl and r < 0.6:
        # NaN-broken line
        ln = gg.rand_line(rng, G, maxk=6)
        ln = [float(v) for v in ln]
        if len(ln) >= 2:
            i = int(rng.integers(0, len(ln)))
            ln[i] = [float("nan"), float("inf"), float("-inf")][int(rng.integers(3))]
        return [ln] if kind == "multiline" else ln
    if kind in ("polygon", "multipolygon") and r < 0.4:
        rings = [degenerate_ring(rng) if rng.random() < 0.6 else gg.rect_polygon(rng, 3)[0][0]
                 for _ in range(int(rng.integers(1, 4)))]
        return rings if kind == "polygon" else [rings, [degenerate_ring(rng)]][:int(rng.integers(1, 3))]
    if kind == "polygon" and r < 0.5:
        # many holes: big square with a grid of unit holes
        k = int(rng.integers(2, 5))
        shell = gg.flat([(0, 0), (4 * k, 0), (4 * k, 4 * k), (0, 4 * k), (0, 0)])
        holes = [gg.flat([(4 * i + 1, 4 * j + 1), (4 * i + 1, 4 * j + 2), (4 * i + 2, 4 * j + 2),
                          (4 * i + 2, 4 * j + 1), (4 * i + 1, 4 * j + 1)])
                 for i in range(k) for j in range(k) if rng.random() < 0.7]
        return [shell] + holes
    return gg.rand_element(rng, kind, G)


def gen_case(rng, kind, subtype):
    n = int(rng.integers(1, 9))
    els = [gen_element(rng, kind, subtype) for _ in range(n)]
    finite = [v for e in els for v in gg.coords_of(kind, e) if isinstance(v, int)]
    lo, hi = (min(finite), max(finite)) if finite else (0, 1)
    s, tx, ty = A.fit_transform(rng, kind, els, subtype, hi - lo)
    tx -= lo * s
    ty -= lo * s
    down = 0
    if subtype == "float64" and rng.random() < 0.25:
        # exact dyadic down-scaling instead of the stretch: tiny but definite lengths and areas
        down = int(rng.integers(6, 20))
        s, tx, ty = 2.0 ** -down, 0.0, 0.0
    if down or any(isinstance(v, float) for e in els for v in gg.coords_of(kind, e)):
        tr = lambda e: _tr_float(e, kind, s, tx, ty)                # noqa: E731
    else:
        tr = lambda e: gg.transform(e, kind, s, tx, ty)             # noqa: E731
    els = [tr(e) for e in els]
    # translation for the invariance clause (stay inside the domain)
    lim = gg.MAG[subtype] if subtype != "float32" else 2 ** 10
    finite = [v for e in els for v in gg.coords_of(kind, e) if not (isinstance(v, float) and not math.isfinite(v))]
    room_hi = lim - (max(finite) if finite else 0)
    room_lo = lim + (min(finite) if finite else 0)
    cand = [d for d in (1, -1, 2 ** 4, -2 ** 7, 2 ** 12, -2 ** 20, 2 ** 24)
            if (d > 0 and d <= room_hi) or (d < 0 and -d <= room_lo)]
    nverts = sum(len(gg.coords_of(kind, e)) // 2 for e in els)
    if subtype in ("float64", "int64") and finite and max(finite) - min(finite) <= 256 and nverts <= 60 \
            and max(abs(v) for v in finite) <= 2 ** 20:
        # every shoelace term x * dy stays an exact integer below 2**53: the measures must not move
        cand += [2 ** 30, -2 ** 34, 2 ** 38]
    dx = int(cand[int(rng.integers(len(cand)))]) if cand else 0
    dy = int(cand[int(rng.integers(len(cand)))]) if cand else 0
    return {"kind": kind, "subtype": subtype, "elements": els, "shift": [dx, dy],
            "formseed": int(rng.integers(2 ** 31))}


def _tr_float(e, kind, s, tx, ty):
    def f(flat_):
        return [(v * s + (tx if i % 2 == 0 else ty)) if math.isfinite(v) else v
                for i, v in enumerate(flat_)]
    if e is None:
        return None
    n = gg.nesting(kind)
    if n == 0:
        return f(e)
    if n == 1:
        return [f(p) for p in e]
    return [[f(r) for r in p] for p in e]


# ---- references -----------------------------------------------------------------------
def lines_of(kind, el):
    if kind in ("line", "ring"):
        return [el]
    if kind in ("multiline", "polygon"):
        return list(el)
    if kind == "multipolygon":
        return [r for part in el for r in part]
    return []


def split_nonfinite(flat):
    """Pieces of a line between non-finite vertices."""
    pts = og.pts_of(flat)
    out, cur = [], []
    for p in pts:
        if all(isinstance(v, int) or math.isfinite(v) for v in p):
            cur.append(p)
        else:
            if len(cur) > 1:
                out.append(gg.flat(cur))
            cur = []
    if len(cur) > 1:
        out.append(gg.flat(cur))
    return out


def length_expected(kind, el):
    """(value, exact) or None when the element is missing."""
    if el is None:
        return None
    if kind in ("point", "multipoint"):
        return Fr(0), True
    pieces = []
    for ln in lines_of(kind, el):
        pieces += split_nonfinite([og.to_exact(v) if not (isinstance(v, float) and not math.isfinite(v)) else v
                                   for v in ln])
    return og.length_ref(pieces)


def area_expected(kind, el):
    """Exact signed shoelace sum, or 'skip' when a ring is not closed / not finite."""
    if el is None:
        return None
    if kind in ("point", "multipoint", "line", "ring", "multiline"):
        return Fr(0)
    tot = 0
    for ring in lines_of(kind, el):
        if len(ring) == 0:
            continue
        if any(isinstance(v, float) and not math.isfinite(v) for v in ring):
            return "skip"
        if len(ring) < 6:
            continue                    # fewer than three vertices: no area
        if not og.is_closed(ring):
            return "skip"
        tot += og.ring_area2([og.to_exact(v) for v in ring])
    return Fr(tot, 2)


def _measure_ok(got, exp, exact, subtype):
    got = float(got)
    if exact:
        return Fr(got) == exp if math.isfinite(got) else False
    if subtype == "float32":
        return None                      # not decided
    e = float(exp)
    return abs(got - e) <= 1e-12 * max(abs(e), 1e-300)


def check_case(ctx, case):
    from spatialpandas import GeoSeries
    kind, subtype, els = case["kind"], case["subtype"], case["elements"]
    rng = np.random.default_rng(case["formseed"])

    def rec_raise(where, e, tb):
        if exc_in_repo(tb) or isinstance(e, IndexError):
            ctx.violation("raised", f"{where}:{kind}:{type(e).__name__}",
                          {"kind": kind, "subtype": subtype, "elements": els},
                          observed=short_exc(e), case=case, msg=tb[-1500:])
            return True
        raise e

    ok, forms, tb = ctx.guarded(A.all_forms, kind, els, subtype, rng)
    if not ok:
        return rec_raise("construct", forms, tb)
    direct = forms[0][1]
    vals = gg.pylist(direct)               # what the array really holds (float32 rounding)
    n = len(vals)
    lens = [length_expected(kind, e) for e in vals]
    areas = [area_expected(kind, e) for e in vals]
    ref_len = ref_area = None
    for form, arr in forms:
        if not all(gg.same_value(a, b) for a, b in zip(gg.pylist(arr), vals)) or len(arr) != n:
            ctx.count("form_values_differ")
            continue
        # a caller may write into the arrays it was handed: the answers judged below come afterwards
        for g_ in (lambda: arr.length, lambda: arr.area, lambda: arr.bounds):
            ok, v_, tb = ctx.guarded(g_)
            if ok:
                ctx.count("caller_written_results", scribble(v_))
        ok, L, tb = ctx.guarded(lambda: np.asarray(arr.length))
        if not ok:
            rec_raise("length", L, tb)
            continue
        ok, Ar, tb = ctx.guarded(lambda: np.asarray(arr.area))
        if not ok:
            rec_raise("area", Ar, tb)
            continue
        if L.shape != (n,) or Ar.shape != (n,):
            ctx.violation("shape", f"measure-shape:{kind}:{form}", {"elements": vals},
                          expected=n, observed=[list(L.shape), list(Ar.shape)], case=case)
            continue
        for i, el in enumerate(vals):
            kindtag = ("missing" if el is None else
                       "empty" if not gg.coords_of(kind, el) else "plain")
            # length
            ctx.count("length_checked")
            if lens[i] is None:
                good = L[i] != L[i]
                exp_s = "nan"
            else:
                r = _measure_ok(L[i], lens[i][0], lens[i][1], subtype)
                good = True if r is None else r
                exp_s = float(lens[i][0])
                if r is None:
                    ctx.count("length_undecided_float32")
            if not good:
                ctx.violation("length", f"length:{kind}:{kindtag}",
                              {"kind": kind, "subtype": subtype, "form": form, "element": el},
                              expected=exp_s, observed=float(L[i]), case=case)
            # area
            if areas[i] == "skip":
                ctx.count("area_skipped_unclosed_or_nonfinite")
            else:
                ctx.count("area_checked")
                if areas[i] is None:
                    good = Ar[i] != Ar[i]
                else:
                    good = math.isfinite(Ar[i]) and Fr(float(Ar[i])) == areas[i]
                if not good:
                    ctx.violation("area", f"area:{kind}:{kindtag}",
                                  {"kind": kind, "subtype": subtype, "form": form, "element": el},
                                  expected=None if areas[i] is None else float(areas[i]),
                                  observed=float(Ar[i]), case=case)
            if form == "direct":
                nontriv = el is not None and any(len(ln) >= 4 for ln in lines_of(kind, el)) \
                    if kind not in ("point", "multipoint") else el is not None
                ctx.case_hash(A.element_hash(kind, subtype, el), nontrivial=bool(nontriv))
                cl = "exact" if (lens[i] and lens[i][1]) else ("approx" if lens[i] else "missing")
                ctx.sig(kind, subtype, kindtag, cl,
                        "area-skip" if areas[i] == "skip" else
                        ("area0" if areas[i] in (None, 0) else ("area+" if areas[i] > 0 else "area-")))
        if ref_len is None:
            ref_len, ref_area = L, Ar
        else:
            # bitwise agreement across provenance forms
            ctx.count("form_agreement_checked")
            if not (np.array_equal(L, ref_len, equal_nan=True)
                    and np.array_equal(Ar, ref_area, equal_nan=True)):
                ctx.violation("form-agreement", f"measures:{kind}:{form}", {"elements": vals},
                              expected=[ref_len.tolist(), ref_area.tolist()],
                              observed=[L.tolist(), Ar.tolist()], case=case)
    if ref_len is None:
        return
    # ---- scalar forms ----------------------------------------------------------------------
    for i in range(n):
        ok, sc, tb = ctx.guarded(lambda: direct[i])
        if not ok:
            rec_raise("getitem", sc, tb)
            continue
        if sc is None:
            continue
        ok, r, tb = ctx.guarded(lambda: (float(sc.length), float(sc.area)))
        if not ok:
            rec_raise("scalar-measure", r, tb)
            continue
        ctx.count("scalar_checked")
        if r[0] != float(ref_len[i]) or r[1] != float(ref_area[i]):
            ctx.violation("form-agreement", f"measures:{kind}:scalar",
                          {"kind": kind, "subtype": subtype, "element": vals[i]},
                          expected=[float(ref_len[i]), float(ref_area[i])], observed=list(r),
                          case=case)
    # ---- GeoSeries ------------------------------------------------------------------------
    idx = [f"i{k}" for k in range(n)]
    ok, r, tb = ctx.guarded(lambda: (lambda g: (g.length, g.area))(GeoSeries(direct, index=idx)))
    if not ok:
        rec_raise("geoseries-measure", r, tb)
    else:
        ctx.count("geoseries_checked")
        if not (np.array_equal(r[0].values, ref_len, equal_nan=True)
                and np.array_equal(r[1].values, ref_area, equal_nan=True)
                and list(r[0].index) == idx and list(r[1].index) == idx):
            ctx.violation("form-agreement", f"measures:{kind}:geoseries", {"elements": vals},
                          expected=[ref_len.tolist(), ref_area.tolist()],
                          observed=[r[0].values.tolist(), r[1].values.tolist()], case=case)
    # ---- boundary ----------------------------------------------------------------------------
    if kind in ("polygon", "multipolygon"):
        for form, arr in forms[:3]:
            ok, b, tb = ctx.guarded(lambda: arr.boundary)
            if not ok:
                rec_raise("boundary", b, tb)
                continue
            ctx.count("boundary_checked")
            want = [None if e is None else [list(r) for r in lines_of(kind, e)] for e in vals]
            gotb = gg.pylist(b)
            okb = (type(b).__name__ == "MultiLineArray" and len(gotb) == n
                   and all(gg.same_value(x, y) for x, y in zip(gotb, want)))
            if not okb:
                tag = "missing" if any(e is None for e in vals) else "plain"
                ctx.violation("boundary", f"boundary:{kind}:{tag}",
                              {"kind": kind, "subtype": subtype, "elements": vals},
                              expected=want, observed=gotb, case=case)
                continue
            ok, bl, tb = ctx.guarded(lambda: np.asarray(b.length))
            if not ok:
                rec_raise("boundary.length", bl, tb)
            elif not np.array_equal(bl, ref_len, equal_nan=True):
                ctx.violation("boundary", f"boundary-length:{kind}",
                              {"kind": kind, "elements": vals}, expected=ref_len.tolist(),
                              observed=bl.tolist(), case=case)
    # ---- translation invariance (exact inside the domain, integer data only) ---------------------
    dx, dy = case["shift"]
    if (dx or dy) and not any(isinstance(v, float) and not float(v).is_integer()
                              for e in vals for v in gg.coords_of(kind, e) if math.isfinite(v)):
        moved = [_tr_float(e, kind, 1, dx, dy) for e in vals]
        ok, r, tb = ctx.guarded(lambda: (lambda a: (np.asarray(a.length), np.asarray(a.area)))
                                (gg.make_array(kind, moved, subtype)))
        if not ok:
            rec_raise("translated", r, tb)
        else:
            ctx.count("translation_checked")
            exact_len = np.array([bool(l and l[1]) or l is None for l in lens])
            same_len = np.array([(a == b) or (a != a and b != b) for a, b in zip(r[0], ref_len)])
            same_area = np.array_equal(r[1], ref_area, equal_nan=True)
            close = np.array([abs(a - b) <= 1e-12 * max(abs(b), 1e-300) or (a != a and b != b)
                              for a, b in zip(r[0], ref_len)])
            if not same_area or not (same_len | (~exact_len & close)).all():
                ctx.violation("translation", f"translation:{kind}",
                              {"kind": kind, "subtype": subtype, "elements": vals, "shift": [dx, dy]},
                              expected=[ref_len.tolist(), ref_area.tolist()],
                              observed=[r[0].tolist(), r[1].tolist()], case=case)
    if len(ctx.samples) < 4 and n:
        i = int(rng.integers(n))
        ctx.sample({"kind": kind, "subtype": subtype, "element": vals[i],
                    "length_ref": None if lens[i] is None else float(lens[i][0]),
                    "area_ref": None if areas[i] in (None, "skip") else float(areas[i]),
                    "length_impl": float(ref_len[i]), "area_impl": float(ref_area[i])})


def run(ctx, spec):
    p = spec["params"]
    for kind in p["kinds"]:
        for subtype in p["subtypes"]:
            for _ in range(p["cases"]):
                check_case(ctx, gen_case(ctx.rng, kind, subtype))


def replay(ctx, v):
    check_case(ctx, v["case"])
