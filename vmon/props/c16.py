"""C16 - derived arrays hold the same elements and behave like fresh ones.

Monitor: a shadow model (Python list of element values / None) is advanced in lock-step
with the real array through a replayable derivation history; after every step the real
array's elements (read back with to_pylist) must equal the model, every derived quantity
must equal, bit for bit, the same quantity on a fresh array built from the model values,
and a table of invalid requests must raise the errors pandas expects."""
import os
import pickle

import numpy as np

from .. import arrays as A
from .. import gen_geom as gg
from ..ctx import exc_in_repo, short_exc

RULE = ("cases = derivation histories of 1-8 steps drawn from {int index, slice with any step, "
        "boolean mask (ndarray/list/pandas), integer indexer, take with/without fill, "
        "concatenation, copy, pickle, iteration, GeoSeries/GeoDataFrame wrap + iloc/loc/mask, "
        "parquet round trip, Ellipsis indexing, empty selections} applied to arrays of every kind "
        "and subtype with missing and empty elements; one evaluation = one (history prefix, "
        "element-or-quantity comparison); non-trivial = derived array with at least one non-missing "
        "element and a non-identity history; distinct = hash of (kind, subtype, initial elements, "
        "history prefix)")
ASSUMPTIONS = ["pyarrow to_pylist is a faithful independent read-back",
               "a fresh array built from the same element values is the reference for every "
               "derived quantity (bitwise equality, NaN == NaN)"]
SPLIT_KINDS = True         # thorough tier: one shard per geometry kind
DECIDING_COUNTERS = ["element_checks", "quantity_checks", "error_checks"]

OPS = ["slice", "step", "mask", "intidx", "take", "takefill", "concat", "copy", "pickle",
       "series", "frame", "ellipsis", "parquet", "empty"]


def shards(tier, seed):
    subs = A.pick_subtypes(tier, seed, n_quick=2)
    n = 45 if tier == "quick" else 500
    groups = [["point", "multipoint", "line"], ["ring", "multiline", "polygon"], ["multipolygon"]]
    out = []
    for kinds in groups:
        for b in ("J", "B"):
            out.append({"name": f"{'+'.join(kinds)}-{b}", "build": b,
                        "params": {"kinds": kinds, "subtypes": subs, "cases": n}})
    # pandas conformance suite for all seven array types with the in-situ monitors attached
    conf = [["point", "line", "ring"], ["multipoint", "multiline"], ["polygon", "multipolygon"]]
    for i, kinds in enumerate(conf):
        st = "float64" if tier == "quick" else ["float64", "int32", "float32"][i]
        out.append({"name": f"conformance-{'+'.join(kinds)}", "build": "J",
                    "params": {"kinds": kinds, "subtypes": [st], "conformance": True}})
    return out


def gen_elements(rng, kind, subtype, n):
    return [gg.soup_element(rng, kind, subtype, special_p=0.04, empty_p=0.1, missing_p=0.2)
            for _ in range(n)]


def gen_case(rng, kind, subtype):
    n = int(rng.integers(1, 10)) if rng.random() < 0.6 else int(rng.integers(17, 42))
    els = gen_elements(rng, kind, subtype, n)
    ops = []
    cur = n
    for _ in range(int(rng.integers(1, 9))):
        op = OPS[int(rng.integers(len(OPS)))]
        d = {"op": op}
        if op == "slice":
            a, b = sorted(int(v) for v in rng.integers(-cur - 1, cur + 2, 2))
            if cur > 9 and rng.random() < 0.5:
                a, b = int(rng.choice([8, 16, 24, 32][:max(1, cur // 8)])), cur + 1   # byte-aligned offset
            d.update(a=a, b=b)
            cur = len(range(cur)[a:b])
        elif op == "step":
            st = int(rng.choice([-3, -2, -1, 2, 3]))
            a = None if rng.random() < 0.5 else int(rng.integers(-cur - 1, cur + 2))
            d.update(a=a, st=st)
            cur = len(range(cur)[a::st])
        elif op == "mask":
            mk = [bool(v) for v in (rng.random(cur) < 0.6)]
            d.update(mask=mk, how=int(rng.integers(3)))
            cur = sum(mk)
        elif op == "intidx":
            if cur == 0:
                continue
            ix = [int(v) for v in rng.integers(-cur, cur, int(rng.integers(0, 6)))]
            d.update(ix=ix, how=int(rng.integers(4)))
            cur = len(ix)
        elif op == "take":
            if cur == 0:
                continue
            ix = [int(v) for v in rng.integers(-cur, cur, int(rng.integers(0, 7)))]
            d.update(ix=ix, how=int(rng.integers(4)))
            cur = len(ix)
        elif op == "takefill":
            if cur == 0:
                continue
            ix = [int(v) for v in rng.integers(-1, cur, int(rng.integers(1, 7)))]
            d.update(ix=ix)
            cur = len(ix)
        elif op == "concat":
            extra = gen_elements(rng, kind, subtype, int(rng.integers(0, 4)))
            d.update(extra=extra, front=bool(rng.integers(2)), selfk=int(rng.integers(0, 3)))
            cur = cur + len(extra) + min(d["selfk"], cur)
        elif op in ("series", "frame"):
            if cur == 0:
                continue
            how = int(rng.integers(3))
            ix = sorted(set(int(v) for v in rng.integers(0, cur, 4)))
            if how == 2:
                ix = [int(v) for v in rng.permutation(cur)[:max(1, cur // 2)]]
            d.update(how=how, ix=ix)
            cur = len(ix)
        elif op == "empty":
            d.update(how=int(rng.integers(3)))
            cur = 0
        ops.append(d)
    return {"kind": kind, "subtype": subtype, "elements": els, "ops": ops,
            "qseed": int(rng.integers(2 ** 31))}


def scalar_value(kind, sc):
    if sc is None:
        return None
    if kind == "point":
        return sc.flat_values.tolist()
    return sc.data.as_py()


def quantities(arr, kind, box, tb, shape):
    q = {}
    q["isna"] = np.asarray(arr.isna())
    q["bounds"] = np.asarray(arr.bounds, dtype=np.float64)
    q["total_bounds"] = np.asarray(arr.total_bounds, dtype=np.float64)
    q["length"] = np.asarray(arr.length)
    q["area"] = np.asarray(arr.area)
    q["intersects_bounds"] = np.asarray(arr.intersects_bounds(box))
    q["hilbert_distance"] = np.asarray(arr.hilbert_distance(list(tb), p=7))
    if kind == "point" and shape is not None:
        q["intersects"] = np.asarray(arr.intersects(shape))
    return q


def apply_op(arr, model, d, kind, subtype, ctx):
    import pandas as pd
    from spatialpandas import GeoDataFrame, GeoSeries
    op = d["op"]
    cls = gg.array_class(kind)
    n = len(model)
    if op == "slice":
        return arr[d["a"]:d["b"]], model[d["a"]:d["b"]]
    if op == "step":
        return arr[d["a"]::d["st"]], model[d["a"]::d["st"]]
    if op == "mask":
        mk = d["mask"]
        key = [np.array(mk, dtype=bool), list(mk), pd.array(mk, dtype="boolean")][d["how"]]
        return arr[key], [m for m, k in zip(model, mk) if k]
    if op in ("intidx", "take"):
        ix = d["ix"]
        how = d.get("how", 1)
        # the indexer as a list, an int64 array, a narrow signed array, an unsigned array
        if how == 0 or (how == 2 and len(ix) == 0):
            key = np.array(ix, dtype=np.int64)
        elif how == 2:
            key = np.array(ix, dtype=np.int8 if max(abs(i) for i in ix) < 127 else np.int16)
        elif how == 3 and len(ix):
            key = np.array([i % n for i in ix], dtype=np.uint8 if n < 256 else np.uint16)
        else:
            key = list(ix)
        before = key.copy() if isinstance(key, np.ndarray) else None
        res = arr[key] if op == "intidx" else arr.take(key)
        if before is not None:
            ctx.count("indexer_untouched_checks")
            if key.dtype != before.dtype or key.tolist() != before.tolist():
                ctx.violation("indexer-mutated", f"{op}:callers-index-array-written:{kind}", {"n": n},
                              expected=before.tolist(), observed=key.tolist())
        return res, [model[i] for i in ix]
    if op == "takefill":
        return arr.take(d["ix"], allow_fill=True), [None if i < 0 else model[i] for i in d["ix"]]
    if op == "concat":
        extra = gg.make_array(kind, d["extra"], subtype)
        ev = gg.pylist(extra)
        k = min(d["selfk"], n)
        parts = [extra, arr, arr[:k]] if d["front"] else [arr, arr[:k], extra]
        mparts = [ev, model, model[:k]] if d["front"] else [model, model[:k], ev]
        return cls._concat_same_type(parts), [m for p in mparts for m in p]
    if op == "copy":
        return arr.copy(), list(model)
    if op == "pickle":
        return pickle.loads(pickle.dumps(arr)), list(model)
    if op in ("series", "frame"):
        ix = d["ix"]
        labels = [f"L{i}" for i in range(n)]
        if op == "series":
            obj = GeoSeries(arr, index=labels)
        else:
            obj = GeoDataFrame({"a": np.arange(n), "g": arr}, index=labels)
        if d["how"] == 0:
            res = obj.iloc[ix]
        elif d["how"] == 1:
            res = obj.loc[[labels[i] for i in ix]]
        elif op == "series" and len(set(ix)) == len(ix):
            # wrapping the labelled series again with an explicit index selects by label, as pandas defines
            res = GeoSeries(obj, index=[labels[i] for i in ix])
            ctx.count("relabelled_series_checks")
        else:
            res = obj.iloc[ix]
        if op == "frame":
            if list(res["a"]) != list(ix):
                ctx.violation("elements", f"frame-rows-misaligned:{kind}", {"ix": ix},
                              expected=list(ix), observed=list(res["a"]))
            res = res["g"]
        return res.array, [model[i] for i in ix]
    if op == "ellipsis":
        return arr[..., :], list(model)
    if op == "parquet":
        from spatialpandas.io import read_parquet, to_parquet
        path = os.path.join(ctx.scratch, f"c16-{os.getpid()}-{ctx.counters['evaluations']}.parq")
        df = GeoDataFrame({"g": arr, "k": np.arange(n)})
        to_parquet(df, path)
        back = read_parquet(path)
        os.unlink(path)
        return back["g"].array, list(model)
    if op == "empty":
        how = d["how"]
        if how == 0:
            return arr[:0], []
        if how == 1:
            return arr[np.zeros(n, dtype=bool)], []
        return arr.take([]), []
    raise ValueError(op)


ERRORS = ["int-oob", "int-oob-neg", "take-oob", "take-oob-neg", "intlist-oob", "intlist-oob-neg",
          "intarr-oob-neg-far", "takefill-lt-minus1",
          "mask-wrong-length", "mask-na", "intidx-na", "float-index", "take-from-empty"]
# (a string key is deliberately not in the table: the repository's own conformance suite
#  marks "passing an invalid index type" as unsupported, so nothing is promised for it)


def check_error(ctx, arr, n, which, kind):
    import pandas as pd
    exp = None
    try:
        if which == "int-oob":
            exp = IndexError
            arr[n]
        elif which == "int-oob-neg":
            exp = IndexError
            arr[-n - 1]
        elif which == "take-oob":
            exp = IndexError
            arr.take([0, n] if n else [0])
        elif which == "take-oob-neg":
            exp = IndexError
            arr.take([-n - 1])
        elif which == "intlist-oob":
            exp = IndexError
            arr[[0, n] if n else [0]]
        elif which == "intlist-oob-neg":
            exp = IndexError
            arr[[-n - 1]]
        elif which == "intarr-oob-neg-far":
            exp = IndexError
            arr[np.array([-1, -2 * n - (0 if n else 1)] if n else [-1], dtype=np.int64)]
        elif which == "takefill-lt-minus1":
            exp = ValueError
            if n == 0:
                return
            arr.take([0, -2], allow_fill=True)
        elif which == "mask-wrong-length":
            exp = IndexError
            arr[np.ones(n + 1, dtype=bool)]
        elif which == "mask-na":
            exp = ValueError
            if n == 0:
                return
            arr[pd.array([True] * (n - 1) + [None], dtype="boolean")]
        elif which == "intidx-na":
            exp = ValueError
            if n == 0:
                return
            arr[pd.array([0, None], dtype="Int64")]
        elif which == "str-index":
            exp = IndexError
            arr["a"]
        elif which == "float-index":
            exp = IndexError
            arr[1.5]
        elif which == "take-from-empty":
            exp = IndexError
            arr[:0].take([0])
    except Exception as e:  # noqa: BLE001
        ctx.count("error_checks")
        ctx.sig(kind, "error", which)
        if not isinstance(e, exp):
            ctx.violation("error-type", f"invalid-request:{which}:{kind}", {"n": n, "request": which},
                          expected=exp.__name__, observed=short_exc(e))
        return
    ctx.count("error_checks")
    ctx.violation("error-missing", f"invalid-request:{which}:{kind}", {"n": n, "request": which},
                  expected=exp.__name__, observed="no exception")


def check_case(ctx, case):
    kind, subtype = case["kind"], case["subtype"]
    rng = np.random.default_rng(case["qseed"])
    box = tuple(float(v) for v in np.sort(rng.integers(-15, 16, 2)).tolist()
                + np.sort(rng.integers(-15, 16, 2)).tolist())
    box = (box[0], box[2], box[1] + 1.0, box[3] + 1.0)
    tb = (-25.0, -25.0, 25.0, 30.0)
    shape = None
    if kind == "point":
        from spatialpandas.geometry import PolygonArray
        shape = PolygonArray([[[-10, -10, 10, -10, 10, 10, -10, 10, -10, -10],
                               [-2, -2, -2, 2, 2, 2, 2, -2, -2, -2]]], dtype="float64")[0]

    def rec_raise(where, e, tb_, hist):
        if exc_in_repo(tb_) or isinstance(e, IndexError):
            ctx.violation("raised", f"{where}:{kind}:{type(e).__name__}",
                          {"kind": kind, "subtype": subtype, "history": hist},
                          observed=short_exc(e), case=case, msg=tb_[-1500:])
            return True
        raise e

    ok, arr, tb_ = ctx.guarded(gg.make_array, kind, case["elements"], subtype)
    if not ok:
        return rec_raise("construct", arr, tb_, [])
    model = gg.pylist(arr)
    hist = []
    for step, d in enumerate(case["ops"]):
        ok, res, tb_ = ctx.guarded(apply_op, arr, model, d, kind, subtype, ctx)
        if not ok:
            rec_raise(f"op-{d['op']}", res, tb_, hist + [d])
            return
        arr, model = res
        hist.append(d)
        nontrivial = any(m is not None for m in model) and d["op"] not in ("copy", "ellipsis")
        ctx.case([kind, subtype, case["elements"], hist], nontrivial=nontrivial)
        ctx.sig(kind, subtype, d["op"], "n0" if not model else "n+")
        # --- elements --------------------------------------------------------------------------
        ctx.count("element_checks")
        got = gg.pylist(arr)
        if type(arr) is not gg.array_class(kind) or arr.dtype.subtype != np.dtype(subtype):
            ctx.violation("type", f"derived-type:{d['op']}:{kind}", {"history": hist},
                          expected=[gg.array_class(kind).__name__, subtype],
                          observed=[type(arr).__name__, str(arr.dtype)], case=case)
            return
        if len(got) != len(model) or not all(gg.same_value(a, b) for a, b in zip(got, model)):
            ctx.violation("elements", f"derived-elements:{d['op']}:{kind}",
                          {"kind": kind, "subtype": subtype, "history": hist},
                          expected=model, observed=got, case=case)
            return
        # scalar access and iteration
        if model and step % 2 == 0:
            i = int(rng.integers(-len(model), len(model)))
            ok, sc, tb_ = ctx.guarded(lambda: arr[i])
            if not ok:
                emp = model[i] is not None and gg.is_inert(kind, model[i])
                rec_raise("getitem-empty-element" if emp else "getitem", sc, tb_, hist)
            else:
                ctx.count("element_checks")
                if not gg.same_value(scalar_value(kind, sc), model[i]):
                    ctx.violation("elements", f"scalar-element:{kind}", {"history": hist, "i": i},
                                  expected=model[i], observed=scalar_value(kind, sc), case=case)
            ok, it, tb_ = ctx.guarded(lambda: [scalar_value(kind, e) for e in arr])
            if not ok:
                emp = any(m is not None and gg.is_inert(kind, m) for m in model)
                rec_raise("iteration-empty-element" if emp else "iteration", it, tb_, hist)
            elif not all(gg.same_value(a, b) for a, b in zip(it, model)) or len(it) != len(model):
                ctx.violation("elements", f"iteration:{kind}", {"history": hist},
                              expected=model, observed=it, case=case)
        # --- errors pandas expects ---------------------------------------------------------------
        check_error(ctx, arr, len(model), ERRORS[int(rng.integers(len(ERRORS)))], kind)
        # --- a narrow integer indexer on an array longer than the indexer's dtype can count -------------
        if model and step == 0 and rng.random() < 0.5:
            reps = 300 // len(model) + 1
            ok, big, tb_ = ctx.guarded(lambda: gg.array_class(kind)._concat_same_type([arr] * reps))
            if ok:
                bm = model * reps
                for dt_ in (np.int8, np.uint8):
                    ix_ = [1 % len(bm), len(model) - 1, 0] + ([-1, -2] if dt_ is np.int8 else [])
                    for via in ("take", "getitem"):
                        key_ = np.array(ix_, dtype=dt_)
                        ok, r_, tb_ = ctx.guarded(lambda: big.take(key_) if via == "take" else big[key_])
                        ctx.count("element_checks")
                        if not ok:
                            rec_raise(f"narrow-indexer:{via}:{np.dtype(dt_).name}", r_, tb_, hist)
                        elif not all(gg.same_value(a_, b_) for a_, b_ in zip(gg.pylist(r_), [bm[i] for i in ix_])):
                            ctx.violation("elements", f"narrow-indexer:{via}:{kind}", {"history": hist, "ix": ix_},
                                          expected=[bm[i] for i in ix_], observed=gg.pylist(r_), case=case)
        # --- quantities against a fresh array --------------------------------------------------------
        ok, fresh, tb_ = ctx.guarded(gg.make_array, kind, model, subtype)
        if not ok:
            rec_raise("fresh", fresh, tb_, hist)
            return
        ok, qa, tb_ = ctx.guarded(quantities, arr, kind, box, tb, shape)
        if not ok:
            rec_raise("quantity-derived", qa, tb_, hist)
            return
        ok, qf, tb_ = ctx.guarded(quantities, fresh, kind, box, tb, shape)
        if not ok:
            rec_raise("quantity-fresh", qf, tb_, hist)
            return
        for name in qa:
            ctx.count("quantity_checks")
            a, f = qa[name], qf[name]
            if a.shape != f.shape or not np.array_equal(a, f, equal_nan=a.dtype.kind == "f"):
                ctx.violation("quantity", f"derived-quantity:{name}:{kind}",
                              {"kind": kind, "subtype": subtype, "history": hist, "elements": model},
                              expected=f.tolist(), observed=a.tolist(), case=case)
    if len(ctx.samples) < 4:
        ctx.sample({"kind": kind, "subtype": subtype, "initial": case["elements"][:3],
                    "history": [d["op"] for d in case["ops"]], "final": model[:3]})


def run(ctx, spec):
    p = spec["params"]
    if p.get("conformance"):
        run_conformance(ctx, p["kinds"], p["subtypes"][0])
        return
    for kind in p["kinds"]:
        for subtype in p["subtypes"]:
            for _ in range(p["cases"]):
                check_case(ctx, gen_case(ctx.rng, kind, subtype))


def replay(ctx, v):
    check_case(ctx, v["case"])


# ---------------------------------------------------------------------------------------------
# conformance workload: the pandas extension-array suite, run for all seven array types with
# the in-situ selection-law monitors (vmon/contracts.py getitem/take/bounds monitors) attached.
# Outcomes of the conformance tests themselves are not verdict-bearing.
# ---------------------------------------------------------------------------------------------
def run_conformance(ctx, kinds, subtype):
    import subprocess
    import sys
    import json as _json
    import tempfile
    from .. import VERIF_DIR
    here = os.path.join(VERIF_DIR, "vmon", "conformance")
    for kind in kinds:
        out = tempfile.mktemp(suffix=".json", dir=ctx.scratch)
        env = dict(os.environ, VMON_CONF_KIND=kind, VMON_CONF_SUBTYPE=subtype, VMON_PLUGIN_OUT=out,
                   PYTHONPATH=os.pathsep.join([os.environ.get("VERIF_REPO", "/repo"), VERIF_DIR,
                                               os.path.join(VERIF_DIR, ".deps")]))
        if kind in ("line", "point"):
            target = os.path.join(os.environ.get("VERIF_REPO", "/repo"), "spatialpandas", "tests",
                                  "test_listextensionarray.py" if kind == "line" else "test_fixedextensionarray.py")
        else:
            target = os.path.join(here, "test_conformance_kinds.py")
        p = subprocess.run([sys.executable, "-m", "pytest", "-q", "-x" if False else "-q", "-p", "no:cacheprovider",
                            "-p", "vmon.pytest_plugin", "--timeout=900", target],
                           env=env, capture_output=True, text=True, cwd=ctx.scratch)
        tail = (p.stdout.strip().splitlines() or [""])[-1]
        ctx.note(f"conformance {kind}[{subtype}]: {tail[-120:]}")
        try:
            r = _json.load(open(out))
        except Exception:  # noqa: BLE001
            ctx.note(f"conformance {kind}: monitor output missing (plugin not loaded?)")
            continue
        for k, v in r["counters"].items():
            ctx.count("conformance:" + k, v)
        ctx.count("conformance_monitor_evaluations", sum(v for k, v in r["counters"].items() if k.startswith("insitu:")))
        ctx.sig(kind, subtype, "conformance-suite")
        for v in r["violations"]:
            ctx.violation(v["clause"], v["mech"] + ":conformance-suite", v["witness"], v.get("expected"),
                          v.get("observed"))
