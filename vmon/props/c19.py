"""C19 - transient filesystem faults never yield a silently wrong packed dataset.

Fault enumeration: the recording filesystem counts the outermost filesystem calls of a
fault-free pack_partitions_to_parquet run (K positions, deterministic under the synchronous
scheduler); then for every position k (exhaustively in the thorough tier, a seeded stride
sample in the quick tier) x fault kind x repetition count the call is re-run with the fault
injected.  Outcome oracle: completed => the whole sandbox must equal the golden snapshot
(files, rows per part, order, metadata, partition bounds, no leftovers); raised => allowed, and
a repeat with overwrite=True must reproduce the golden dataset."""
import os
import shutil

import numpy as np

from .. import fsmon
from .. import gen_frames as gf
from ..ctx import exc_in_repo, short_exc

LEVEL = "fault_enumeration"
RULE = ("cases = (configuration, fault position k in 1..K, fault kind in {OSError, FileNotFoundError, "
        "half-written file, stale listing}, repetitions in {1, retry_limit-1, retry_limit}) plus "
        "sampled pairs of positions; configurations = temp-directory mode {inside the dataset, "
        "outside with {uuid}} x {no empty output partition, empty output partitions}; thorough: every "
        "k (the space 'single fault x position x kind x repetitions' of the four configurations, for "
        "one frame and one task order, is then enumerated completely; pairs are sampled); quick: a seeded "
        "stride sample; non-trivial = the fault actually fired; distinct = "
        "(configuration, k, kind, repetitions)")
ASSUMPTIONS = ["synchronous scheduler so that position k names the same operation in every run",
               "faults of the statement's kinds only; wrong answers of existence checks are reported "
               "under extended_kinds, never as violations",
               "a recovery run is compared on the dataset directory only (external temp directories "
               "of the aborted run carry another random uuid)"]
DECIDING_COUNTERS = ["faulted_runs", "faults_fired"]
EXHAUSTIVE = {"quick": False, "thorough": True}

RETRY = dict(wait_fixed=1, stop_max_attempt_number=3)
CONFIGS = {
    "inside": {"mode": "default", "npartitions": 3},
    "outside-uuid": {"mode": "ext-uuid", "npartitions": 3},
    "inside-empties": {"mode": "default", "npartitions": 13},
    "outside-uuid-empties": {"mode": "ext-uuid", "npartitions": 13},
}
KINDS = ["OSError", "FileNotFoundError", "half", "stale"]


def shards(tier, seed):
    out = []
    for cname in CONFIGS:
        for kinds in (KINDS[:2], KINDS[2:]):
            b = "B" if (cname, kinds[0]) in (("inside", "OSError"), ("outside-uuid-empties", "half")) else "J"
            out.append({"name": f"{cname}-{'+'.join(kinds)}-{b}", "build": b, "timeout": 3000 if tier == "quick" else 14000,
                        "params": {"config": cname, "kinds": kinds,
                                   "stride": 3 if tier == "quick" else 1,
                                   "reps": [1, 3] if tier == "quick" else [1, 2, 3],
                                   "pairs": 10 if tier == "quick" else 250,
                                   "extended": 6 if tier == "quick" else 60}})
    return out


def frame(seed=5):
    rng = np.random.default_rng(seed)
    n = 10
    pts = [[int(v) for v in rng.integers(0, 64, 2)] for _ in range(n)]
    spec = gf.frame_spec(rng, [("pt", "point", "float64", pts)], n, "default")
    spec["uid"] = 7 << 24
    return gf.build_frame(spec)


def tdf(mode, root):
    if mode == "default":
        return None
    return os.path.join(root, "tmp", "t-{uuid}-{partition}")


class det_uuid:
    """Deterministic uuid4 for the duration of a run: dask orders independent tasks by their
    (uuid-based) keys, so without this the k-th filesystem call would not name the same
    operation in every run.  The seed selects one of the possible task orders."""

    def __init__(self, seed):
        self.seed = seed

    def __enter__(self):
        import random
        import uuid
        rnd = random.Random(self.seed)
        self._orig = uuid.uuid4
        uuid.uuid4 = lambda: uuid.UUID(int=rnd.getrandbits(128), version=4)
        return self

    def __exit__(self, *a):
        import uuid
        uuid.uuid4 = self._orig


USEED = [0]


def run_pack(ddf, root, cfg, fs, overwrite=False):
    path = os.path.join(root, "ds.parq")
    with det_uuid(USEED[0] + (1000 if overwrite else 0)):
        return ddf.pack_partitions_to_parquet(path, filesystem=fs, npartitions=cfg["npartitions"], p=5,
                                              tempdir_format=tdf(cfg["mode"], root), _retry_args=RETRY,
                                              overwrite=overwrite)


def full_snapshot(root):
    snap = fsmon.dataset_snapshot(os.path.join(root, "ds.parq"))
    tree = fsmon.scan_tree(root)
    return snap, tree


def fault_obj(kind):
    return {"OSError": OSError, "FileNotFoundError": FileNotFoundError}.get(kind, kind)


def one_run(ctx, ddf, cfg, cname, golden, faults, label, case):
    """Execute one faulted run (+ recovery if it raises); returns outcome string."""
    import dask
    root = os.path.join(ctx.scratch, f"c19-{label}")
    shutil.rmtree(root, ignore_errors=True)
    os.makedirs(os.path.join(root, "tmp"))
    gsnap, gtree = golden[0], golden[1]
    stale = sorted(k for k, v in faults.items() if v in ("stale", "stale-last"))
    hard = {k: fault_obj(v) for k, v in faults.items() if v not in ("stale", "stale-last")}
    fs = fsmon.MonFS(faults=hard, stale_from=stale[0] if stale else None, stale_count=len(stale))
    if any(v == "stale-last" for v in faults.values()):
        fs.stale_mode = "last-name"
    outcome = None
    try:
        with dask.config.set(scheduler="synchronous"):
            try:
                run_pack(ddf, root, cfg, fs)
                fs.armed = False
                completed = True
            except Exception as e:  # noqa: BLE001 - raising is an allowed outcome
                fs.armed = False
                completed = False
                err = e
            fired = len(fs.fired)
            ctx.count("faulted_runs")
            ctx.count("faults_fired", fired)
            if len(fs.events) > golden[2]:
                ctx.count("runs_with_retried_operations")
            if completed:
                snap, tree = full_snapshot(root)
                if snap == gsnap and tree == gtree:
                    outcome = "completed-equal"
                else:
                    outcome = "completed-DIFFERENT"
                    diff = {"listing": snap["listing"] != gsnap["listing"],
                            "rows": snap["parts"] != gsnap["parts"],
                            "partition_bounds": snap["spatial"] != gsnap["spatial"],
                            "row_groups": snap["metadata_row_groups"] != gsnap["metadata_row_groups"],
                            "leftovers": sorted(set(tree) - set(gtree))[:8],
                            "missing": sorted(set(gtree) - set(tree))[:8]}
                    ops = [f"{k}:{op}" for k, op, _, _ in fs.fired]
                    return outcome, fired, {"diff": diff, "fired": fs.fired[:6], "ops": ops}
            else:
                # recovery: repeat with overwrite=True, fault-free
                try:
                    run_pack(ddf, root, cfg, fsmon.MonFS(), overwrite=True)
                    snap = fsmon.dataset_snapshot(os.path.join(root, "ds.parq"))
                    if snap == gsnap:
                        outcome = "raised-recovered"
                    else:
                        outcome = "raised-RECOVERY-DIFFERENT"
                        return outcome, fired, {"error": short_exc(err), "fired": fs.fired[:6],
                                                "listing": snap["listing"]}
                except Exception as e2:  # noqa: BLE001
                    outcome = "raised-RECOVERY-RAISED"
                    return outcome, fired, {"error": short_exc(err), "recovery_error": short_exc(e2),
                                            "fired": fs.fired[:6]}
        return outcome, fired, None
    finally:
        shutil.rmtree(root, ignore_errors=True)


def run(ctx, spec):
    import dask
    import dask.dataframe as dd
    p = spec["params"]
    cname = p["config"]
    cfg = CONFIGS[cname]
    df = frame()
    ddf = dd.from_pandas(df, npartitions=2)
    USEED[0] = int(ctx.seed) * 7 + int(p.get("useed", 0))
    # ---- golden run(s): K and the reference snapshot -----------------------------------------------
    goldens = []
    for g in range(2):
        root = os.path.join(ctx.scratch, f"c19-gold{g}")
        os.makedirs(os.path.join(root, "tmp"))
        fs = fsmon.MonFS()
        with dask.config.set(scheduler="synchronous"):
            run_pack(ddf, root, cfg, fs)
        fs.armed = False
        snap, tree = full_snapshot(root)
        goldens.append((snap, tree, len(fs.events), [e["op"] for e in fs.events]))
        shutil.rmtree(root, ignore_errors=True)
    if goldens[0][2] != goldens[1][2] or goldens[0][0] != goldens[1][0] or goldens[0][3] != goldens[1][3]:
        ctx.note(f"golden runs differ: K={goldens[0][2]} vs {goldens[1][2]} - positions are not stable")
        ctx.violation("nondeterminism", f"pack_to_parquet:fault-free-runs-differ:{cname}", {"config": cname},
                      expected=goldens[0][2], observed=goldens[1][2])
        return
    golden = goldens[0]
    K = golden[2]
    ctx.extra["K"] = {cname: K}
    ctx.extra["ops_histogram"] = {cname: {op: golden[3].count(op) for op in sorted(set(golden[3]))}}
    if sorted(i for n_ in golden[0]["parts"] for i in golden[0]["parts"][n_]["ids"]) != sorted(df["rid"].tolist()):
        raise AssertionError("golden dataset does not hold the input rows")
    hist = {}
    rng = ctx.rng
    offset = int(rng.integers(0, p["stride"]))
    positions = list(range(1 + offset, K + 1, p["stride"]))
    if 1 not in positions:
        positions.insert(0, 1)
    if K not in positions:
        positions.append(K)

    def judge(outcome, fired, detail, kind, reps, ks, label):
        ctx.case([cname, ks, kind, reps], nontrivial=fired > 0)
        key = f"{kind}|x{reps}|{outcome}"
        hist[key] = hist.get(key, 0) + 1
        ctx.sig(cname, kind, f"x{reps}", outcome, golden[3][ks[0] - 1] if ks[0] <= K else "-")
        if outcome in ("completed-equal", "raised-recovered"):
            return
        op = golden[3][ks[0] - 1] if ks[0] <= K else "?"
        clause = {"completed-DIFFERENT": "silently-wrong-dataset",
                  "raised-RECOVERY-DIFFERENT": "recovery-differs",
                  "raised-RECOVERY-RAISED": "recovery-raises"}[outcome]
        what = ""
        if detail and "diff" in detail:
            d = detail["diff"]
            what = "+".join(k_ for k_ in ("listing", "rows", "partition_bounds", "row_groups") if d[k_]) or "leftovers"
        ctx.violation(clause, f"pack_to_parquet:{clause}:{cname}:{kind}:op={op}:{what}",
                      {"config": cname, "positions": ks, "kind": kind, "repetitions": reps,
                       "operation": op, "detail": detail},
                      expected="dataset identical to the fault-free run, or an exception",
                      observed=outcome, case={"config": cname, "positions": ks, "kind": kind})

    listing_pos = [i + 1 for i, op in enumerate(golden[3]) if op in ("ls", "find")]
    for kind in p["kinds"]:
        for reps in p["reps"]:
            # a stale listing only makes sense where something is listed: every listing-type
            # position is enumerated (not a stride sample), as the start of a window of `reps`
            # stale listings
            for k in (listing_pos if kind == "stale" else positions):
                ks = list(range(k, k + reps))
                faults = {kk: kind for kk in ks}
                o, fired, detail = one_run(ctx, ddf, cfg, cname, golden, faults, f"{kind}-{reps}-{k}", None)
                judge(o, fired, detail, kind, reps, ks, None)
                if kind == "stale":
                    # second flavour of staleness: the listing lacks the recently created entry
                    # that sorts last (whichever task wrote it)
                    faults = {kk: "stale-last" for kk in ks}
                    o, fired, detail = one_run(ctx, ddf, cfg, cname, golden, faults, f"stale-last-{reps}-{k}", None)
                    judge(o, fired, detail, "stale-last", reps, ks, None)
        # pairs of positions
        for _ in range(p["pairs"]):
            a, b = sorted(int(v) for v in rng.choice(np.arange(1, K + 1), 2, replace=False))
            k2 = p["kinds"][int(rng.integers(len(p["kinds"])))]
            faults = {a: kind, b: k2}
            o, fired, detail = one_run(ctx, ddf, cfg, cname, golden, faults, f"pair-{a}-{b}", None)
            ctx.case([cname, [a, b], kind, k2], nontrivial=fired > 0)
            key = f"pair:{kind}+{k2}|{o}"
            hist[key] = hist.get(key, 0) + 1
            ctx.sig(cname, "pair", kind, k2, o)
            if o not in ("completed-equal", "raised-recovered"):
                clause = {"completed-DIFFERENT": "silently-wrong-dataset",
                          "raised-RECOVERY-DIFFERENT": "recovery-differs",
                          "raised-RECOVERY-RAISED": "recovery-raises"}[o]
                ctx.violation(clause, f"pack_to_parquet:{clause}:{cname}:pair:{kind}+{k2}",
                              {"config": cname, "positions": [a, b], "kinds": [kind, k2], "detail": detail},
                              observed=o, case={"config": cname, "positions": [a, b], "kinds": [kind, k2]})
    # ---- targeted pairs: a failing call followed by a stale listing (and the reverse) ------------------
    if "OSError" in p["kinds"]:
        for j in listing_pos:
            for hard_ in ("FileNotFoundError", "OSError"):
                for flav in ("stale", "stale-last"):
                    for faults in ({j: hard_, j + 1: flav}, {j: flav, j + 1: hard_}):
                        o, fired, detail = one_run(ctx, ddf, cfg, cname, golden, faults, f"mixed-{j}", None)
                        first = faults[j]
                        ctx.case([cname, [j, j + 1], first, faults[j + 1]], nontrivial=fired > 1)
                        key = f"mixed:{first}+{faults[j + 1]}|{o}"
                        hist[key] = hist.get(key, 0) + 1
                        ctx.sig(cname, "mixed-pair", first, faults[j + 1], o)
                        ctx.count("mixed_pairs_run")
                        if o not in ("completed-equal", "raised-recovered"):
                            clause = {"completed-DIFFERENT": "silently-wrong-dataset",
                                      "raised-RECOVERY-DIFFERENT": "recovery-differs",
                                      "raised-RECOVERY-RAISED": "recovery-raises"}[o]
                            ctx.violation(clause, f"pack_to_parquet:{clause}:{cname}:mixed-pair:{first}+{faults[j + 1]}",
                                          {"config": cname, "positions": [j, j + 1], "kinds": [first, faults[j + 1]],
                                           "detail": detail}, observed=o,
                                          case={"config": cname, "positions": [j, j + 1],
                                                "kinds": [first, faults[j + 1]]})
    # ---- extended kinds (reported, never verdict-bearing) ---------------------------------------------
    ext = {}
    exist_pos = [i + 1 for i, op in enumerate(golden[3]) if op in ("exists", "isfile", "isdir")]
    for k in list(rng.choice(exist_pos, size=min(p["extended"], len(exist_pos)), replace=False)) if exist_pos else []:
        o, fired, detail = one_run(ctx, ddf, cfg, cname, golden, {int(k): "exists-flip"}, f"flip-{k}", None)
        ext[o] = ext.get(o, 0) + 1
    ctx.extra["extended_kinds"] = {f"{cname}:exists-flip": ext}
    ctx.extra["outcome_histogram"] = {cname: hist}
    ctx.extra["positions_enumerated"] = {cname: len(positions)}
    ctx.sample({"config": cname, "K": K, "first_operations": golden[3][:14],
                "positions": positions[:12], "kinds": p["kinds"], "repetitions": p["reps"]})


def replay(ctx, v):
    import dask.dataframe as dd
    c = v["case"]
    cfg = CONFIGS[c["config"]]
    ddf = dd.from_pandas(frame(), npartitions=2)
    import dask
    root = os.path.join(ctx.scratch, "c19-gold")
    os.makedirs(os.path.join(root, "tmp"))
    fs = fsmon.MonFS()
    with dask.config.set(scheduler="synchronous"):
        run_pack(ddf, root, cfg, fs)
    fs.armed = False
    snap, tree = full_snapshot(root)
    golden = (snap, tree, len(fs.events), [e["op"] for e in fs.events])
    shutil.rmtree(root, ignore_errors=True)
    kinds = c.get("kinds") or [c["kind"]] * len(c["positions"])
    if len(kinds) < len(c["positions"]):
        kinds = [kinds[0]] * len(c["positions"])
    faults = {int(k): kd for k, kd in zip(c["positions"], kinds)}
    o, fired, detail = one_run(ctx, ddf, cfg, c["config"], golden, faults, "replay", None)
    ctx.case([c], nontrivial=True)
    if o not in ("completed-equal", "raised-recovered"):
        ctx.violation("replayed", f"pack_to_parquet:{o}:{c['config']}", {"detail": detail}, observed=o)
