"""C02 - point-versus-shape intersects is exact (the predicate behind sjoin).

Monitor: every (point, shape) answer of the real PointArray.intersects (whole array, inds
restricted), Point.intersects (scalar) and GeoSeries.intersects is compared with the
exact oracle (equality / exact collinearity / even-odd parity with on-ring detection);
points on a polygon ring are outside the truth clause but inside the agreement clause.
Rectilinear shapes are cross-checked with the raster oracle.
"""
import numpy as np

from .. import arrays as A
from .. import gen_geom as gg
from .. import oracle_geom as og
from ..ctx import exc_in_repo, short_exc

RULE = ("cases = (point, shape) with shapes of the six kinds from hostile generators and the "
        "points of the complete half-grid around the shape (so every point whose rightward ray "
        "passes through a vertex or along a horizontal edge, and every point collinear with a "
        "segment beyond its end, is included), after an exact affine stretch; point arrays "
        "contain missing entries whose null slots hold the bytes of a point inside the shape; "
        "non-trivial = point inside the shape's bounding box; distinct = hash of (kind, "
        "subtypes, shape coordinates, point)")
ASSUMPTIONS = [
    "coordinates inside the exactness domain of the coordinate subtype",
    "polygons valid by construction; points on a ring are excluded from the truth clause only",
]
DECIDING_COUNTERS = ["truth_checked", "form_checked"]

SHAPE_KINDS = ["point", "multipoint", "line", "multiline", "polygon", "multipolygon"]
GROUPS = [["point", "multipoint", "line", "multiline"], ["polygon"], ["multipolygon"]]


def combos(tier, seed):
    if tier == "quick":
        other = ["float32", "int32", "int64"][seed % 3]
        return [("float64", "float64"), ("int16", "int16"), (other, other)]
    return [("float64", "float64"), ("float32", "float32"), ("int64", "int64"),
            ("int32", "int32"), ("int16", "int16"), ("float64", "int32"), ("int32", "float64"),
            ("float32", "float64")]


def shards(tier, seed):
    out = []
    cs = combos(tier, seed)
    if tier == "quick":
        for kinds in GROUPS:
            for b in ("J", "B"):
                out.append({"name": f"{'+'.join(kinds)}-{b}", "build": b,
                            "params": {"kinds": kinds, "combos": cs,
                                       "cases": 30 if b == "J" else 12, "G": 4}})
    else:
        for gi, kinds in enumerate(GROUPS):
            for ci in range(0, len(cs), 2):
                b = "B" if (gi + ci // 2) % 3 == 0 else "J"
                out.append({"name": f"{'+'.join(kinds)}-{ci}-{b}", "build": b,
                            "params": {"kinds": kinds, "combos": cs[ci:ci + 2], "cases": 240,
                                       "G": 5}})
    return out


def gen_case(rng, kind, pt_sub, sh_sub, G, n_shapes=8, flavor=None):
    """flavor 'negzero': a shape vertex is moved to the origin and every zero coordinate of the points,
    of the shapes or of both is stored as -0.0 (equal in value to 0.0).
    flavor 'f32res' (float32 shapes, wider point subtype, point-like shapes): shape vertices are even
    integers just above 2**24 - exactly representable in float32 - and the points run over all
    integers there: the odd ones differ from every vertex by less than the float32 resolution."""
    shapes, cells = [], []
    for _ in range(n_shapes):
        if kind == "polygon" and rng.random() < 0.6:
            r, c = gg.rect_polygon(rng, G)
            shapes.append(r)
            cells.append(sorted(c))
        elif kind == "multipolygon" and rng.random() < 0.7:
            p, c = gg.rect_multipolygon(rng, G)
            shapes.append(p)
            cells.append(sorted(c))
        else:
            shapes.append(gg.rand_element(rng, kind, G))
            cells.append(None)
    allc = [v for e in shapes for v in gg.coords_of(kind, e)]
    lo, hi = min([0] + allc), max([G] + allc)
    # the tighter of the two subtypes' domains decides the stretch
    tight = pt_sub if gg.MAG[pt_sub] <= gg.MAG[sh_sub] else sh_sub
    if "float32" in (pt_sub, sh_sub):
        tight = "float32"
    s, tx, ty = A.fit_transform(rng, kind, shapes, tight, hi - lo)
    tx -= lo * s
    ty -= lo * s
    if flavor == "f32res":
        s, tx, ty = 2, 2 ** 24 - 2 * lo + 2, 2 ** 24 - 2 * lo + 4
    elif flavor and flavor.startswith("negzero") and allc:
        k_ = 2 * int(rng.integers(len(allc) // 2))
        tx, ty = -allc[k_] * s, -allc[k_ + 1] * s
    shapes_t = [gg.transform(e, kind, s, tx, ty) for e in shapes]
    # points: complete half grid (integer grid for integer point subtypes), doubled units
    integer_pts = not pt_sub.startswith("float")
    step = 2 if integer_pts else 1
    if flavor == "f32res":
        # plain-unit integers (doubled: even numbers) of the stretched grid, i.e. half steps of the shape grid
        integer_pts, step = True, 1
    vals = list(range(2 * (lo - 1), 2 * (hi + 1) + 1, step))
    P = np.array([(x, y) for x in vals for y in vals], dtype=np.int64)
    if len(P) > 900:
        P = P[np.sort(rng.choice(len(P), size=900, replace=False))]
    Ps = P.copy()
    Ps[:, 0] = P[:, 0] * s + 2 * tx
    Ps[:, 1] = P[:, 1] * s + 2 * ty
    # positions of missing points
    miss = sorted(set(int(v) for v in rng.choice(len(Ps), size=min(6, len(Ps)), replace=False)))
    return {"kind": kind, "pt_sub": pt_sub, "sh_sub": sh_sub, "shapes": shapes_t,
            "cells": cells, "stretch": [s, tx, ty], "points2": Ps.tolist(), "missing": miss,
            "flavor": flavor}


def build_points(P2, pt_sub, missing, negzero=False):
    """PointArray whose null slots keep the original point bytes (hostile null slots)."""
    import pyarrow as pa
    from spatialpandas.geometry import PointArray
    vals = (P2.astype(np.float64) / 2.0).astype(pt_sub)
    if negzero and vals.dtype.kind == "f":
        vals[vals == 0] = -0.0
    n = len(vals)
    if not missing:
        return PointArray(vals)
    valid = np.ones(n, dtype=bool)
    valid[list(missing)] = False
    bitmap = np.packbits(valid, bitorder="little")
    width = vals.dtype.itemsize * 2
    arr = pa.Array.from_buffers(pa.binary(width), n,
                                [pa.py_buffer(bitmap.tobytes()),
                                 pa.py_buffer(np.ascontiguousarray(vals).tobytes())])
    return PointArray(arr, dtype=pt_sub)


def _negzero(e):
    if e is None:
        return None
    if isinstance(e, (list, tuple)):
        return [_negzero(v) for v in e]
    return -0.0 if e == 0 else e


def _floats(e):
    if e is None:
        return None
    if isinstance(e, (list, tuple)):
        return [_floats(v) for v in e]
    return float(e)


def point_classes(kind, shape2, X, Y, code):
    """Situation class per point, for the evidence signature (doubled coordinates)."""
    n = len(X)
    cls = np.empty(n, dtype=object)
    cls[:] = "outside"
    cls[code == 1] = "hit" if kind in ("point", "multipoint") else (
        "on-line" if kind in ("line", "multiline") else "inside")
    cls[code == 2] = "boundary"
    if kind in ("line", "multiline"):
        lines = [shape2] if kind == "line" else shape2
        for flat in lines:
            pts = og.pts_of(flat)
            for (ax, ay), (bx, by) in zip(pts, pts[1:]):
                if (ax, ay) == (bx, by):
                    continue
                cross = (bx - ax) * (Y - ay) - (by - ay) * (X - ax)
                inbb = ((X >= min(ax, bx)) & (X <= max(ax, bx)) & (Y >= min(ay, by))
                        & (Y <= max(ay, by)))
                cls[(cross == 0) & ~inbb & (code == 0)] = "collinear-beyond-end"
            for (vx, vy) in pts:
                cls[(X == vx) & (Y == vy)] = "vertex-hit"
    if kind in ("polygon", "multipolygon"):
        parts = [shape2] if kind == "polygon" else shape2
        thru = np.zeros(n, dtype=bool)
        along = np.zeros(n, dtype=bool)
        for rings in parts:
            for flat in rings:
                pts = og.pts_of(flat)
                for (vx, vy) in pts:
                    thru |= (Y == vy) & (X < vx)
                for (ax, ay), (bx, by) in zip(pts, pts[1:]):
                    if ay == by and ax != bx:
                        along |= (Y == ay) & (X < max(ax, bx))
        nb = code != 2
        cls[nb & thru & (code == 1)] = "inside+ray-through-vertex"
        cls[nb & thru & (code == 0)] = "outside+ray-through-vertex"
        cls[nb & along & (code == 1)] = "inside+ray-along-horizontal-edge"
        cls[nb & along & (code == 0)] = "outside+ray-along-horizontal-edge"
    return cls


def check_case(ctx, case):
    from spatialpandas import GeoSeries
    kind, pt_sub, sh_sub = case["kind"], case["pt_sub"], case["sh_sub"]
    shapes = case["shapes"]
    P2 = np.array(case["points2"], dtype=np.int64).reshape(-1, 2)
    missing = list(case.get("missing") or [])
    npts = len(P2)
    rng = np.random.default_rng(int(P2.sum() % (2 ** 31)) + len(shapes))
    X, Y = P2[:, 0], P2[:, 1]
    miss_mask = np.zeros(npts, dtype=bool)
    miss_mask[missing] = True

    def rec_raise(where, e, tb, form):
        if exc_in_repo(tb) or isinstance(e, IndexError):
            ctx.violation("raised", f"intersects:{kind}:{form}:{type(e).__name__}",
                          {"kind": kind, "pt_sub": pt_sub, "sh_sub": sh_sub, "where": where},
                          observed=short_exc(e), case=case, msg=tb[-1500:])
            return True
        raise e

    flavor = case.get("flavor") or ""
    ok, PA, tb = ctx.guarded(build_points, P2, pt_sub, missing, flavor in ("negzero-points", "negzero-both"))
    if not ok:
        return rec_raise("build points", PA, tb, "construct")
    stored = shapes
    if flavor in ("negzero-shapes", "negzero-both") and sh_sub.startswith("float"):
        stored = [_negzero(e) for e in shapes]
    if flavor == "f32res":
        stored = [_floats(e) for e in shapes]     # (arrow refuses Python ints above 2**24 for float32)
    if flavor:
        ctx.count(f"flavor:{flavor}")
    ok, SA, tb = ctx.guarded(gg.make_array, kind, stored, sh_sub)
    if not ok:
        return rec_raise("build shapes", SA, tb, "construct")
    gs = GeoSeries(PA, index=np.arange(npts) + 100)
    for i, el in enumerate(shapes):
        ok, shape, tb = ctx.guarded(lambda: SA[i])
        if not ok:
            rec_raise(f"shape scalar {el}", shape, tb, "getitem")
            continue
        ok, got, tb = ctx.guarded(PA.intersects, shape)
        if not ok:
            rec_raise(f"array form shape={el}", got, tb, "array")
            continue
        got = np.asarray(got)
        if got.shape != (npts,):
            ctx.violation("form", f"intersects:{kind}:result-shape", {"shape": el},
                          expected=npts, observed=list(got.shape), case=case)
            continue
        shape2 = gg.transform(el, kind, 2, 0, 0)
        code = og.points_vs_shape_many(kind, shape2, X, Y)
        cls = point_classes(kind, shape2, X, Y, code)
        cls[miss_mask] = "missing"
        for c in np.unique(cls):
            ctx.sig(kind, f"{pt_sub}/{sh_sub}", "array", c, n=int((cls == c).sum()))
            ctx.require(f"{kind}:{c}", True)
        flat = og.flat_coords(kind, shape2)
        xs, ys = np.array(flat[0::2]), np.array(flat[1::2])
        inbb = (X >= xs.min()) & (X <= xs.max()) & (Y >= ys.min()) & (Y <= ys.max())
        h = A.element_hash(kind, f"{pt_sub}/{sh_sub}", el)
        ctx.case_hashes(A.mix_hash(h, P2[inbb & ~miss_mask]), n_eval=npts)
        ctx.count("truth_checked", int(((code != 2) | miss_mask).sum()))
        exp = code == 1
        exp[miss_mask] = False
        decided = (code != 2) | miss_mask
        bad = np.nonzero(decided & (got != exp))[0]
        # raster cross-check of the oracle
        cells = (case.get("cells") or [None] * len(shapes))[i]
        if cells is not None:
            from fractions import Fraction as Fr
            s, tx, ty = case["stretch"]
            cellset = {tuple(c) for c in cells}
            for j in rng.choice(npts, size=min(npts, 60), replace=False):
                p = (Fr(int(X[j]) - 2 * tx, 2 * s), Fr(int(Y[j]) - 2 * ty, 2 * s))
                if p[0].denominator > 2 or p[1].denominator > 2:
                    continue
                r = og.cells_point(cellset, p)
                ctx.count("oracle_crosschecks")
                want = {0: "out", 1: "in", 2: "bd"}[int(code[j])]
                # a point on the common edge of two touching parts is 'bd' for the ring
                # oracle and interior for the cell-union oracle: both are right
                if r != want and not (want == "bd" and r == "in" and kind == "multipolygon"):
                    raise AssertionError(f"ORACLE DISAGREEMENT raster={r} general={want} "
                                         f"shape={el} p={p}")
        if len(bad):
            j = int(bad[0])
            clause = "missing-true" if miss_mask[j] else "truth"
            mech = f"intersects:{kind}:{cls[j]}"
            small = {**case, "shapes": [el], "cells": None, "points2": [P2[j].tolist()],
                     "missing": [0] if miss_mask[j] else []}
            ctx.violation(clause, mech,
                          {"kind": kind, "pt_sub": pt_sub, "sh_sub": sh_sub, "shape": el,
                           "point": (P2[j] / 2.0).tolist(), "n_bad": int(len(bad))},
                          expected=bool(exp[j]), observed=bool(got[j]), case=small)
        if len(ctx.samples) < 4:
            j = int(rng.integers(npts))
            ctx.sample({"shape_kind": kind, "subtypes": [pt_sub, sh_sub], "shape": el,
                        "point": (P2[j] / 2.0).tolist(), "class": str(cls[j]),
                        "implementation": bool(got[j])})
        # ---- agreement of forms, for every point (boundary points included) ------------
        for name, inds in (("inds-perm", rng.permutation(npts)),
                           ("inds-repeat", rng.integers(0, npts, size=17)),
                           ("inds-empty", np.zeros(0, dtype=np.int64)),
                           ("inds-uint32", np.sort(rng.choice(npts, size=max(1, npts // 3),
                                                              replace=False)).astype(np.uint32))):
            ok, r, tb = ctx.guarded(PA.intersects, shape, inds)
            if not ok:
                rec_raise(name, r, tb, name)
                continue
            r = np.asarray(r)
            ref = got[inds.astype(np.int64)]
            ctx.count("form_checked", len(ref))
            ctx.sig(kind, f"{pt_sub}/{sh_sub}", name)
            if r.shape != ref.shape or (r != ref).any():
                ctx.violation("form-agreement", f"intersects:{kind}:{name}",
                              {"shape": el, "inds": inds.tolist()[:50]},
                              expected=ref.tolist()[:50], observed=r.tolist()[:50], case=case)
        # scalar Point form on a sample that always includes boundary and special points
        special = np.nonzero((cls != "outside") & ~miss_mask)[0]
        pick = list(rng.choice(special, size=min(len(special), 14), replace=False)) if len(special) else []
        pick += list(rng.choice(npts, size=6))
        for j in pick:
            ok, pt, tb = ctx.guarded(lambda: PA[int(j)])
            if not ok:
                rec_raise("point scalar", pt, tb, "getitem")
                continue
            if pt is None:
                continue
            ok, r, tb = ctx.guarded(pt.intersects, shape)
            if not ok:
                rec_raise(f"scalar point shape={el}", r, tb, "scalar")
                break
            ctx.count("form_checked")
            ctx.sig(kind, f"{pt_sub}/{sh_sub}", "scalar", cls[j])
            if bool(r) != bool(got[j]):
                ctx.violation("form-agreement", f"intersects:{kind}:scalar",
                              {"shape": el, "point": (P2[j] / 2.0).tolist(), "class": str(cls[j])},
                              expected=bool(got[j]), observed=bool(r),
                              case={**case, "shapes": [el], "cells": None})
        ok, r, tb = ctx.guarded(gs.intersects, shape)
        if not ok:
            rec_raise("geoseries", r, tb, "geoseries")
        else:
            ctx.count("form_checked", npts)
            if (np.asarray(r.values) != got).any() or list(r.index) != list(gs.index):
                ctx.violation("form-agreement", f"intersects:{kind}:geoseries", {"shape": el},
                              expected=got.tolist()[:50], observed=np.asarray(r.values).tolist()[:50],
                              case=case)


REQUIRED = {
    "line": ["vertex-hit", "on-line", "collinear-beyond-end", "outside", "missing"],
    "multiline": ["vertex-hit", "on-line", "collinear-beyond-end", "outside"],
    "polygon": ["inside", "outside", "boundary", "inside+ray-through-vertex",
                "outside+ray-through-vertex", "outside+ray-along-horizontal-edge", "missing"],
    "multipolygon": ["inside", "outside", "boundary", "inside+ray-through-vertex",
                     "outside+ray-through-vertex", "outside+ray-along-horizontal-edge"],
    "point": ["hit", "outside"], "multipoint": ["hit", "outside"],
}


def run(ctx, spec):
    p = spec["params"]
    for kind in p["kinds"]:
        for c in REQUIRED[kind]:
            ctx.require(f"{kind}:{c}", False)
        for pt_sub, sh_sub in p["combos"]:
            for _ in range(p["cases"]):
                flavor = None
                if pt_sub.startswith("float") and sh_sub.startswith("float") and ctx.rng.random() < 0.2:
                    flavor = ["negzero-points", "negzero-shapes", "negzero-both"][int(ctx.rng.integers(3))]
                case = gen_case(ctx.rng, kind, pt_sub, sh_sub, p["G"], flavor=flavor)
                check_case(ctx, case)
                ctx.count("cases")
        if kind in ("point", "multipoint"):
            # equality across coordinate subtypes, below the resolution of the narrower one
            for pt_sub in ("float64", "int32", "int64"):
                for _ in range(max(2, p["cases"] // 6)):
                    check_case(ctx, gen_case(ctx.rng, kind, pt_sub, "float32", p["G"], flavor="f32res"))
                    ctx.count("cases")


def replay(ctx, v):
    check_case(ctx, v["case"])
