"""C12 - stored partition bounds are the true extents; pruning never loses a row.

Monitor on read_parquet_dask: the per-partition bounds are read at three observation points
(the frame's cached table, the public partition_bounds accessor, an independent parse of the
b'spatialpandas' key of _common_metadata) and compared with the extents recomputed from the
rows actually stored in each loaded partition (C13 oracle); with bounds=box the kept
partitions must be exactly those whose recorded extent overlaps the box, no intersecting row
(exact C01 oracle) may be lost and the reported bounds must be those of the partitions kept."""
import json
import os
import shutil

import numpy as np

from .. import gen_frames as gf
from .. import gen_geom as gg
from .. import oracle_geom as og
from ..ctx import exc_in_repo, short_exc
from .c13 import total_ref

RULE = ("cases = (frame with 2 geometry columns laid out so that partitions have distinct extents, "
        "missing rows, written by Dask to_parquet or pack_partitions_to_parquet with 1..16 partitions "
        "(>= 11 so that textual and numeric order differ), geometry= choice, single dataset / list / "
        "glob of two datasets, 6 boxes: touching a partition extent exactly, reversed corners, "
        "disjoint, covering, random); one evaluation = one (dataset, read) comparison; non-trivial = "
        ">= 2 partitions; distinct = hash of (frame, writer, partitions, geometry, box)")
ASSUMPTIONS = ["partitions whose recorded extent is NaN neither overlap nor miss: only the no-row-lost "
               "clause applies to them", "exactness domain for the row-level C01 oracle (integer coordinates)"]
USE_CONTRACTS = True      # in-situ icontract monitors (vmon/contracts.py)
SPLIT_KINDS = True         # thorough tier: one shard per geometry kind
DECIDING_COUNTERS = ["datasets_checked", "bounds_rows_checked", "prunes_checked"]


def shards(tier, seed):
    n = 14 if tier == "quick" else 200
    out = []
    for i, kinds in enumerate((["point", "line"], ["multipoint", "polygon"], ["multiline", "multipolygon", "ring"])):
        for b in ("J", "B"):
            out.append({"name": f"{'+'.join(kinds)}-{b}", "build": b,
                        "params": {"kinds": kinds, "cases": n if b == "J" else n // 2}})
    return out


def gen_case(rng, kind):
    n = int(rng.choice([3, 8, 16, 33, 48]))
    els, other = [], []
    ok_ = "point" if kind != "point" else "line"
    for i in range(n):
        e = gg.rand_element(rng, kind, 3)
        els.append(gg.transform(e, kind, 1, 5 * i, int(rng.integers(0, 30))))
        o = gg.rand_element(rng, ok_, 3)
        other.append(gg.transform(o, ok_, 1, int(rng.integers(0, 60)), 5 * (n - i)))
    exact = bool(rng.random() < 0.6)
    if not exact:
        # full-precision float coordinates: the recorded extents must still be *exactly* those of the
        # stored rows (values are read, not computed); the row-level oracle is skipped for these
        def jit(flat_):
            return [float(v + rng.uniform(-0.49, 0.49)) for v in flat_]
        def jel(kind_, e):
            n_ = gg.nesting(kind_)
            if n_ == 0:
                out = jit(e)
                if kind_ == "ring":
                    out[-2:] = out[:2]
                return out
            if n_ == 1:
                return [jit(p_) for p_ in e]
            return [[jit(r_) for r_ in p_] for p_ in e]
        els = [jel(kind, e) for e in els]
        other = [jel(ok_, e) for e in other]
    for _ in range(int(rng.integers(0, 4))):
        els[int(rng.integers(n))] = None
    if rng.random() < 0.3:
        k0 = int(rng.integers(0, n))
        for j in range(k0, min(n, k0 + 3)):
            els[j] = None                         # maybe a whole partition of missing rows
    cols = [("ga", kind, "float64", els), ("gb", ok_, "float64", other)]
    if rng.random() < 0.5:
        cols = cols[::-1]
    spec = gf.frame_spec(rng, cols, n, "default")
    return {"spec": spec, "kind": kind, "other_kind": ok_, "writer": ["dask", "pack"][int(rng.integers(2))],
            "npartitions": int(rng.choice([1, 2, 3, 7, 11, 12, 16])),
            "geometry": [None, "ga", "gb"][int(rng.integers(3))],
            "multi": ["none", "none", "list", "glob", "list-mixed"][int(rng.integers(5))],
            "rewrite": bool(rng.random() < 0.3), "exact": exact,
            # input partitions emptied by a row filter before writing (their files hold zero rows)
            "empty_parts": sorted(set(int(v) for v in rng.integers(0, 16, int(rng.integers(1, 3)))))
            if rng.random() < 0.3 else [],
            "seed": int(rng.integers(2 ** 31))}


def _eq4(a, b):
    return all((float(x) != float(x) and float(y) != float(y)) or float(x) == float(y) for x, y in zip(a, b))


def check_case(ctx, case):
    import dask
    import dask.dataframe as dd
    import pyarrow.parquet as pq
    from spatialpandas.io import read_parquet_dask
    spec, kind = case["spec"], case["kind"]
    kinds = {"ga": kind, "gb": case["other_kind"]}
    root = os.path.join(ctx.scratch, f"c12-{case['seed']}")
    shutil.rmtree(root, ignore_errors=True)
    os.makedirs(root)
    w = {"kind": kind, "writer": case["writer"], "npartitions": case["npartitions"],
         "geometry": case["geometry"], "multi": case["multi"], "n": spec["n"]}

    def viol(clause, mech, exp=None, obs=None, extra=None):
        ctx.violation(clause, mech, {**w, **(extra or {})}, expected=exp, observed=obs, case=case)

    def guarded(where, fn):
        ok, r, tb = ctx.guarded(fn)
        if not ok:
            if exc_in_repo(tb) or "pyarrow" in tb or "dask" in tb:
                ctx.violation("raised", f"partition-bounds:{where}:{case['writer']}:{type(r).__name__}", w,
                              observed=short_exc(r), case=case, msg=tb[-1500:])
                return None
            raise r
        return r

    try:
        df = gf.build_frame(spec)
        paths = []
        with dask.config.set(scheduler="synchronous"):
            for di in range(2 if case["multi"] != "none" else 1):
                src = df if di == 0 else df.assign(rid=df["rid"] + 10 ** 6).iloc[::-1]
                p = os.path.join(root, f"d{di}.parq")
                npart = max(1, min(case["npartitions"], len(src)))
                ddf = dd.from_pandas(src, npartitions=npart, sort=False)
                emp = [k_ for k_ in case.get("empty_parts") or [] if k_ < ddf.npartitions]
                if emp and ddf.npartitions >= 2 and len(emp) < ddf.npartitions:
                    gone = [r_ for k_ in emp for r_ in ddf.partitions[k_]["rid"].compute().tolist()]
                    ddf = ddf[~ddf["rid"].isin(gone)]
                    ctx.count("datasets_with_zero_row_partitions")
                ow = bool(case.get("rewrite")) and di == 0
                if ow:
                    # history: another dataset was written to, and read from, the same path before
                    old_df = src.iloc[::-1].iloc[: max(1, len(src) // 2)].assign(rid=src["rid"].iloc[0] + 5 * 10 ** 6)
                    odf = dd.from_pandas(old_df, npartitions=max(1, min(3, len(old_df))), sort=False)
                    if case["writer"] == "dask":
                        guarded("write-previous", lambda: odf.to_parquet(p) or 1)
                    else:
                        guarded("write-previous", lambda: (odf.pack_partitions_to_parquet(p, npartitions=2, p=8), 1)[1])
                    guarded("read-previous", lambda: read_parquet_dask(p).geometry.partition_bounds)
                if case["multi"] == "list-mixed" and di == 1:
                    # the second dataset is written without the spatial metadata (plain Dask writer)
                    r = guarded("write-plain", lambda: dd.to_parquet(ddf, p, write_metadata_file=False) or 1)
                elif case["writer"] == "dask":
                    r = guarded("write", lambda: ddf.to_parquet(p, overwrite=True) or 1 if ow else ddf.to_parquet(p) or 1)
                else:
                    r = guarded("write", lambda: (ddf.pack_partitions_to_parquet(p, npartitions=npart, p=8,
                                                                                 overwrite=ow), 1)[1])
                if r is None:
                    return
                paths.append(p)
            arg = paths[0] if case["multi"] == "none" else (paths if case["multi"] in ("list", "list-mixed")
                                                            else os.path.join(root, "d*.parq"))
            if case["multi"] == "list-mixed" and case["seed"] % 2:
                arg = paths[::-1]
            g = case["geometry"]
            rd = guarded("read", lambda: read_parquet_dask(arg, geometry=g) if g else read_parquet_dask(arg))
            if rd is None:
                return
            parts = guarded("compute-partitions", lambda: list(dask.compute(*rd.to_delayed())))
            if parts is None:
                return
            ctx.count("datasets_checked")
            act = rd.geometry.name
            nparts = len(parts)
            ctx.case([spec["cols"], case["writer"], case["npartitions"], g, case["multi"]], nontrivial=nparts >= 2)
            ctx.sig(kind, case["writer"], f"np{nparts if nparts < 11 else '11+'}", str(g), case["multi"],
                    "rewritten-path" if case.get("rewrite") else "-")
            if case["multi"] == "list-mixed":
                # nothing is recorded for one of the datasets: the frame exposes either no bounds table or a
                # complete and correct one, and a bounds= read never loses an intersecting row
                ctx.count("mixed_metadata_reads")
                cached = getattr(rd, "_partition_bounds", None) or {}
                tb_ = {c: [list(total_ref(kinds[c], gg.pylist(pt[c].array))) for pt in parts] for c in ("ga", "gb")}
                for c, tab in cached.items():
                    if len(tab) != nparts or not all(_eq4(tab.iloc[i].values, tb_[c][i]) for i in range(nparts)):
                        viol("bounds-wrong", f"partition-bounds:partial-table-exposed:mixed-metadata:{case['writer']}",
                             [nparts, tb_[c][:4]], [len(tab), tab.values.tolist()[:4]], {"column": c})
                all_ids = sorted(r_ for pt in parts for r_ in pt["rid"].tolist())
                for bx in ([-10, -10, 10 ** 5, 10 ** 5], [10 ** 6, 10 ** 6, 10 ** 6 + 1, 10 ** 6 + 1]):
                    rb = guarded("read-bounds-mixed", lambda: read_parquet_dask(arg, geometry=act, bounds=tuple(bx)).compute())
                    if rb is None:
                        continue
                    ctx.count("prunes_checked")
                    if bx[0] < 0 and sorted(rb["rid"].tolist()) != all_ids:
                        viol("row-lost", "partition-bounds:mixed-metadata:pruning-loses-intersecting-row",
                             len(all_ids), len(rb), {"box": bx})
                return
            # extents recomputed from the rows actually stored in each loaded partition
            true_b = {c: [list(total_ref(kinds[c], gg.pylist(pt[c].array))) for pt in parts] for c in ("ga", "gb")}
            # (a) cached table
            cached = getattr(rd, "_partition_bounds", None) or {}
            for c in ("ga", "gb"):
                if c not in cached:
                    viol("bounds-missing", f"partition-bounds:cached-table-missing:{case['writer']}", ["ga", "gb"],
                         sorted(cached))
                    continue
                tab = cached[c]
                if len(tab) != nparts:
                    viol("bounds-count", f"partition-bounds:cached-row-count:{case['writer']}:{case['multi']}",
                         nparts, len(tab))
                    continue
                for i in range(nparts):
                    ctx.count("bounds_rows_checked")
                    if not _eq4(tab.iloc[i].values, true_b[c][i]):
                        viol("bounds-wrong", f"partition-bounds:cached-row-differs:{case['writer']}:"
                             f"{'np11+' if nparts >= 11 else 'np<11'}:{case['multi']}", true_b[c][i],
                             [float(v) for v in tab.iloc[i].values], {"column": c, "partition": i})
                        break
            # (b) public accessor
            for c in ("ga", "gb"):
                pb = guarded("accessor", lambda: rd[c].partition_bounds)
                if pb is None or len(pb) != nparts:
                    continue
                for i in range(nparts):
                    ctx.count("bounds_rows_checked")
                    if not _eq4(pb.iloc[i].values, true_b[c][i]):
                        viol("bounds-wrong", f"partition-bounds:accessor-row-differs:{case['writer']}",
                             true_b[c][i], [float(v) for v in pb.iloc[i].values], {"column": c, "partition": i})
                        break
            # (c) independent parse of _common_metadata of the first dataset
            md = pq.read_metadata(os.path.join(paths[0], "_common_metadata")).metadata or {}
            sp = json.loads(md[b"spatialpandas"].decode()) if b"spatialpandas" in md else None
            if sp is None or "partition_bounds" not in sp:
                viol("bounds-missing", f"partition-bounds:metadata-key-missing:{case['writer']}")
            else:
                n0 = len([f for f in os.listdir(paths[0]) if f.startswith("part.")])
                for c in ("ga", "gb"):
                    tabj = sp["partition_bounds"].get(c)
                    if tabj is None:
                        viol("bounds-missing", f"partition-bounds:metadata-column-missing:{case['writer']}", c)
                        continue
                    for i in range(n0):
                        ctx.count("bounds_rows_checked")
                        row = [tabj[k_].get(str(i)) for k_ in ("x0", "y0", "x1", "y1")]
                        row = [float("nan") if v is None else v for v in row]
                        if not _eq4(row, true_b[c][i]):
                            viol("bounds-wrong", f"partition-bounds:metadata-row-differs:{case['writer']}:"
                                 f"{'np11+' if n0 >= 11 else 'np<11'}", true_b[c][i], row,
                                 {"column": c, "partition": i})
                            break
            # ---- pruning -----------------------------------------------------------------------------
            rec = cached.get(act)
            if rec is None or len(rec) != nparts:
                return
            recv = [[float(v) for v in rec.iloc[i].values] for i in range(nparts)]
            rng = np.random.default_rng(case["seed"])
            fin = [b for b in recv if b[0] == b[0]]
            boxes = []
            if fin:
                b0 = fin[int(rng.integers(len(fin)))]
                # touching the recorded extent exactly on each of its four sides, and at a corner
                boxes.append([b0[2], b0[1], b0[2] + 7, b0[3]])
                boxes.append([b0[0] - 7, b0[1], b0[0], b0[3]])
                boxes.append([b0[0], b0[3], b0[2], b0[3] + 7])
                boxes.append([b0[0], b0[1] - 7, b0[2], b0[1]])
                boxes.append([b0[0] - 3, b0[3], b0[0], b0[3] + 2])
                boxes.append([b0[2], b0[3], b0[0], b0[1]])                     # reversed corners
                boxes.append([b0[2] + 1, b0[1] - 1, b0[0] - 1, b0[3] + 1])     # only x reversed
                boxes.append([b0[0] - 1, b0[3] + 1, b0[2] + 1, b0[1] - 1])     # only y reversed
            boxes.append([10 ** 6, 10 ** 6, 10 ** 6 + 1, 10 ** 6 + 1])        # disjoint from everything
            boxes.append([-10, -10, 10 ** 5, 10 ** 5])                         # covers everything
            for _ in range(2):
                xs = np.sort(rng.integers(-2, 5 * spec["n"] + 5, 2))
                ys = np.sort(rng.integers(-2, 5 * spec["n"] + 5, 2))
                boxes.append([float(xs[0]), float(ys[0]), float(xs[1]) + 0.5, float(ys[1]) + 0.5])
            all_rows = [pt for pt in parts]
            for bx in boxes:
                rb = guarded("read-bounds", lambda: read_parquet_dask(arg, geometry=act, bounds=tuple(bx)))
                if rb is None:
                    continue
                got = guarded("compute-pruned", lambda: rb.compute())
                if got is None:
                    continue
                ctx.count("prunes_checked")
                nb = og.norm_box(bx)
                keep = [i for i, b in enumerate(recv) if b[0] == b[0] and
                        not (b[2] < nb[0] or b[3] < nb[1] or b[0] > nb[2] or b[1] > nb[3])]
                nanp = [i for i, b in enumerate(recv) if b[0] != b[0]]
                exp_ids = [r_ for i in keep for r_ in parts[i]["rid"].tolist()]
                got_ids = got["rid"].tolist()
                nan_ids = {r_ for i in nanp for r_ in parts[i]["rid"].tolist()}
                ctx.sig(kind, "prune", f"keep{min(len(keep), 3)}of{min(nparts, 12)}")
                pw = {"box": bx, "recorded": recv[:8], "kept_expected": keep}
                if [r_ for r_ in got_ids if r_ not in nan_ids] != exp_ids and len(got) > 0 or \
                        (len(got) == 0 and exp_ids):
                    viol("prune-set", f"partition-bounds:wrong-partitions-kept:{'touching' if (fin and bx in boxes[:5]) else 'reversed' if (fin and bx in boxes[5:8]) else 'other'}",
                         exp_ids[:20], got_ids[:20], pw)
                # no intersecting row lost (row-level exact oracle, integer coordinates)
                B = np.array([[int(round(2 * v)) for v in nb]], dtype=np.int64)
                lost = []
                if case.get("exact", True) and nb[0] < nb[2] and nb[1] < nb[3] and all(abs(v) < 2 ** 24 for v in nb) \
                        and all(float(2 * v).is_integer() for v in nb):
                    gset = set(got_ids)
                    for pt in all_rows:
                        for rid, el in zip(pt["rid"].tolist(), gg.pylist(pt[act].array)):
                            if el is None:
                                continue
                            el2 = gg.transform([og.to_exact(v) for v in el] if kinds[act] in ("point", "multipoint", "line", "ring")
                                               else el, kinds[act], 2, 0, 0) if False else _dbl(kinds[act], el)
                            if og.element_box_many(kinds[act], el2, B)[0] and rid not in gset:
                                lost.append(rid)
                    if lost:
                        viol("row-lost", "partition-bounds:pruning-loses-intersecting-row", [], lost[:10], pw)
                # bounds reported afterwards are those of the partitions kept, for every column
                after = getattr(rb, "_partition_bounds", None) or {}
                if len(got) == 0 and not keep:
                    # nothing kept: the tables describe the partitions of the (empty) result, and its extent is
                    # undefined, not an error
                    ctx.count("empty_selection_checks")
                    okq, q_, tbq = ctx.guarded(lambda: ([len(t_) for t_ in after.values()], rb.npartitions,
                                                        [float(v) for v in rb.geometry.total_bounds],
                                                        len(rb.cx[bx[0]:bx[2], bx[1]:bx[3]].compute())))
                    if not okq:
                        viol("bounds-after-prune", f"partition-bounds:empty-selection:{type(q_).__name__}",
                             "NaN extent", short_exc(q_), pw)
                    elif any(n_ != q_[1] for n_ in q_[0]) or any(v == v for v in q_[2]) or q_[3] != 0:
                        viol("bounds-after-prune", "partition-bounds:empty-selection:tables-do-not-describe-the-result",
                             [q_[1], "NaN extent", 0], list(q_), pw)
                if len(got) > 0 and keep:
                    for c in ("ga", "gb"):
                        tab = after.get(c)
                        expb = [true_b[c][i] for i in keep]
                        if tab is not None and nanp:
                            # partitions with an undefined recorded extent may be kept as well
                            kept_all = sorted(set(keep) | set(nanp))
                            if len(tab) == len(kept_all):
                                expb = [true_b[c][i] for i in kept_all]
                        if tab is None or len(tab) != len(expb) or not all(
                                _eq4(tab.iloc[j].values, expb[j]) for j in range(len(expb))):
                            viol("bounds-after-prune", f"partition-bounds:bounds-after-pruning:{'active' if c == act else 'other-column'}",
                                 expb[:6], None if tab is None else tab.values.tolist()[:6], {**pw, "column": c})
                            break
            # ---- a failing read of the recorded bounds is never mistaken for "nothing recorded" ---------------
            if case["multi"] == "none" and case["seed"] % 3 == 0 and fin:
                from .. import fsmon

                def outcome(fs_):
                    r_ = read_parquet_dask(paths[0], geometry=act, bounds=tuple(boxes[0]), filesystem=fs_)
                    tabs = getattr(r_, "_partition_bounds", None) or {}
                    return (r_.npartitions, sorted(tabs), r_["rid"].compute().tolist())
                fs0 = fsmon.MonFS()
                ok0, ref_, tb0 = ctx.guarded(outcome, fs0)
                fs0.armed = False
                if ok0:
                    opens = [e["k"] for e in fs0.events if e["op"] in ("open", "cat", "cat_file", "info", "size", "exists", "isfile")
                             and any(str(p_).endswith("_common_metadata") for p_ in e["paths"])]
                    for k_ in opens[:6]:
                        fs1 = fsmon.MonFS(faults={k_: OSError})
                        ok1, got_, tb1 = ctx.guarded(outcome, fs1)
                        fs1.armed = False
                        ctx.count("metadata_read_faults_injected")
                        if ok1 and fs1.fired and got_ != ref_:
                            viol("fault-swallowed", "partition-bounds:failing-metadata-read-taken-for-no-metadata",
                                 [ref_[0], ref_[1], len(ref_[2])], [got_[0], got_[1], len(got_[2])],
                                 {"box": boxes[0], "operation": [e["op"] for e in fs0.events if e["k"] == k_]})
                            break
            if len(ctx.samples) < 4:
                ctx.sample({"kind": kind, "writer": case["writer"], "partitions": nparts,
                            "recorded_bounds_active": recv[:4], "true_bounds_active": true_b[act][:4],
                            "boxes": boxes[:3]})
    finally:
        shutil.rmtree(root, ignore_errors=True)


def _dbl(kind, el):
    n = gg.nesting(kind)
    f = lambda fl: [int(round(2 * v)) for v in fl]          # noqa: E731
    if n == 0:
        return f(el)
    if n == 1:
        return [f(p) for p in el]
    return [[f(r) for r in p] for p in el]


def run(ctx, spec):
    for kind in spec["params"]["kinds"]:
        for _ in range(spec["params"]["cases"]):
            check_case(ctx, gen_case(ctx.rng, kind))


def replay(ctx, v):
    check_case(ctx, v["case"])
