"""C07 - the Hilbert curve mapping is a locality-preserving bijection.

Monitor on the four public entry points of spatialindex.hilbert_curve: model-free curve laws
(round trips, permutation of the grid, unit steps, refinement between successive orders,
end points) checked on complete sweeps, plus an independent pure-Python big-int
implementation of Skilling's transform for spot values and for the orders that cannot be
swept."""
import numpy as np

from .. import oracle_hilbert as oh
from ..ctx import exc_in_repo, short_exc

RULE = ("exhaustive blocks: every distance 0..2^(np)-1 of every (n, p) with 2^(np) <= 2^16 (quick) "
        "/ 2^20 (thorough) through the vectorised entry points, scalar entry points exhaustively "
        "up to 2^12 cells; beyond: every p up to 31 (n=2), 62 (n=1), 20 (n=3) on boundary cells "
        "(0, max, 2^k, 2^k+-1) and seeded random cells; one case = one (n, p, cell); every cell "
        "except those of p=1 grids is non-trivial; distinct = distinct (n, p, distance)")
ASSUMPTIONS = ["np <= 62 bits", "scalar entry points may modify the coordinate array passed in "
               "(the statement does not forbid it); the harness passes copies"]
DECIDING_COUNTERS = ["cells_roundtrip", "cells_reference"]
# complete sweeps are per (n, p) block (listed under extra.exhaustive_blocks); the whole space of the
# property (all p up to 31 / 62 / 20) is not enumerated, so the top-level flag stays false
EXHAUSTIVE = {"quick": False, "thorough": False}

PMAX = {1: 62, 2: 31, 3: 20}


def shards(tier, seed):
    bits = 16 if tier == "quick" else 20
    out = []
    for n in (1, 2, 3):
        for b in ("J", "B"):
            out.append({"name": f"n{n}-{b}", "build": b,
                        "params": {"n": n, "bits": bits if b == "J" else min(bits, 14),
                                   "rand": 4000 if tier == "quick" else 400000}})
    return out


def run(ctx, spec):
    from spatialpandas.spatialindex import hilbert_curve as hc
    n = spec["params"]["n"]
    bits = spec["params"]["bits"]
    rng = ctx.rng

    def bad(clause, mech, w, exp=None, obs=None):
        ctx.violation(clause, mech, w, expected=exp, observed=obs,
                      case={"n": n, **{k: v for k, v in w.items() if k in ("p", "h", "cell")}})

    def guarded(fn, *a):
        ok, r, tb = ctx.guarded(fn, *a)
        if not ok:
            if exc_in_repo(tb) or isinstance(r, (IndexError, OverflowError, ZeroDivisionError)):
                ctx.violation("raised", f"hilbert:n{n}:{type(r).__name__}", {"args": str(a)[:200]},
                              observed=short_exc(r), msg=tb[-1200:])
                return None
            raise r
        return r

    prev = None          # coordinates of the previous (smaller) order, for refinement
    for p in range(1, PMAX[n] + 1):
        if n * p > bits:
            break
        N = 1 << (n * p)
        h = np.arange(N, dtype=np.int64)
        c = guarded(hc.coordinates_from_distances, p, n, h.copy())
        if c is None:
            return
        c = np.asarray(c)
        keep = c.copy()
        back = guarded(hc.distances_from_coordinates, p, c)
        if back is None:
            return
        # the round trip is judged against what the caller passed in: a vectorised entry point
        # that overwrites its argument breaks "coordinates -> distance -> coordinates is the identity"
        if not np.array_equal(c, keep):
            bad("input-modified", f"hilbert:n{n}:vectorised-entry-modifies-its-argument", {"p": p},
                keep[:4].tolist(), c[:4].tolist())
            c = keep.copy()
        h_in = h.copy()
        c_again = guarded(hc.coordinates_from_distances, p, n, h_in)
        if c_again is not None and not np.array_equal(h_in, h):
            bad("input-modified", f"hilbert:n{n}:vectorised-entry-modifies-its-argument", {"p": p})
        ctx.count("cells_roundtrip", N)
        ctx.case_hashes((np.int64(n) << 58) ^ (np.int64(p) << 52) ^ h if p > 1 else np.zeros(0),
                        n_eval=N)
        ctx.sig(f"n{n}", f"p{p}", "exhaustive")
        w = {"p": p}
        if not np.array_equal(np.asarray(back), h):
            k = int(np.nonzero(np.asarray(back) != h)[0][0])
            bad("roundtrip", f"hilbert:n{n}:d->c->d", {"p": p, "h": k}, k, int(back[k]))
        if c.shape != (N, n) or c.min() < 0 or c.max() > (1 << p) - 1:
            bad("range", f"hilbert:n{n}:cell-range", w, [0, (1 << p) - 1], [int(c.min()), int(c.max())])
        # permutation of the grid: encode cells as mixed radix numbers
        code = np.zeros(N, dtype=np.int64)
        for d_ in range(n):
            code = (code << p) | keep[:, d_]
        if len(np.unique(code)) != N:
            bad("bijection", f"hilbert:n{n}:cell-visited-twice", w, N, int(len(np.unique(code))))
        if N > 1:
            step = np.abs(np.diff(keep, axis=0)).sum(axis=1)
            if not (step == 1).all():
                k = int(np.nonzero(step != 1)[0][0])
                bad("adjacency", f"hilbert:n{n}:non-unit-step", {"p": p, "h": k},
                    keep[k].tolist(), keep[k + 1].tolist())
        # end points
        if not (keep[0] == 0).all() or keep[-1, 0] != (1 << p) - 1 or not (keep[-1, 1:] == 0).all():
            bad("endpoints", f"hilbert:n{n}:endpoints", w, "start at origin, end at (2^p-1,0..)",
                [keep[0].tolist(), keep[-1].tolist()])
        # c -> d round trip from the cell side (all cells, in grid order)
        grid = np.stack(np.meshgrid(*[np.arange(1 << p)] * n, indexing="ij"), axis=-1).reshape(-1, n)
        dg = guarded(hc.distances_from_coordinates, p, grid.astype(np.int64))
        if dg is None:
            return
        dg = np.asarray(dg)
        cg = guarded(hc.coordinates_from_distances, p, n, dg.copy())
        if cg is None:
            return
        if not np.array_equal(np.asarray(cg), grid) or dg.min() < 0 or dg.max() > N - 1 \
                or len(np.unique(dg)) != N:
            bad("roundtrip", f"hilbert:n{n}:c->d->c", w)
        # refinement
        if prev is not None:
            dpar = guarded(hc.distances_from_coordinates, p - 1, (keep >> 1))
            if dpar is None:
                return
            ctx.count("refinement_checked", N)
            if not np.array_equal(np.asarray(dpar), h >> n):
                k = int(np.nonzero(np.asarray(dpar) != (h >> n))[0][0])
                bad("refinement", f"hilbert:n{n}:refinement", {"p": p, "h": k}, int(k >> n), int(dpar[k]))
        prev = keep
        # reference implementation on a stride sample, scalar entry points exhaustively (small)
        idx = np.arange(N) if N <= 4096 else np.unique(np.concatenate(
            [np.arange(0, N, max(1, N // 997)), rng.integers(0, N, 300), [N - 1]]))
        for k in idx:
            k = int(k)
            ref = oh.d2c(p, n, k)
            ctx.count("cells_reference")
            if ref != keep[k].tolist():
                bad("reference", f"hilbert:n{n}:differs-from-skilling", {"p": p, "h": k}, ref, keep[k].tolist())
                break
            if oh.c2d(p, ref) != k:
                raise AssertionError("reference implementation is not self-consistent")
        if N <= 4096:
            for k in range(N):
                cs = guarded(hc.coordinate_from_distance, p, n, k)
                if cs is None:
                    return
                ds = guarded(hc.distance_from_coordinate, p, np.array(keep[k], dtype=np.int64))
                ctx.count("scalar_checked")
                if [int(v) for v in cs] != keep[k].tolist() or int(ds) != k:
                    bad("scalar-vs-vector", f"hilbert:n{n}:scalar-entry", {"p": p, "h": k},
                        [keep[k].tolist(), k], [[int(v) for v in cs], int(ds)])
                    break
            ctx.sig(f"n{n}", f"p{p}", "scalar-exhaustive")
    # ---- orders that cannot be swept ---------------------------------------------------------
    nr = spec["params"]["rand"]
    for p in range(1, PMAX[n] + 1):
        if n * p <= bits:
            continue
        side = 1 << p
        N = 1 << (n * p)
        special = {0, side - 1, side // 2, side // 2 - 1}
        for k in range(p):
            special |= {1 << k, (1 << k) - 1, min(side - 1, (1 << k) + 1)}
        special = sorted(special)
        per = max(20, nr // PMAX[n])
        cells = [[int(rng.choice(special)) for _ in range(n)] for _ in range(per // 2)]
        cells += [[int(v) for v in rng.integers(0, side, n)] for _ in range(per // 2)]
        cells += [[0] * n, [side - 1] + [0] * (n - 1), [side - 1] * n]
        C = np.array(cells, dtype=np.int64)
        keepC = C.copy()
        d = guarded(hc.distances_from_coordinates, p, C)
        if d is None:
            return
        d = np.asarray(d)
        if not np.array_equal(C, keepC):
            bad("input-modified", f"hilbert:n{n}:vectorised-entry-modifies-its-argument", {"p": p},
                keepC[:4].tolist(), C[:4].tolist())
        ctx.sig(f"n{n}", f"p{p}", "sampled")
        ctx.case_hashes((np.int64(n) << 58) ^ (np.int64(p) << 52) ^ d, n_eval=len(d))
        cb = guarded(hc.coordinates_from_distances, p, n, d.copy())
        if cb is None:
            return
        ctx.count("cells_roundtrip", len(d))
        if not np.array_equal(np.asarray(cb), keepC):
            k = int(np.nonzero((np.asarray(cb) != keepC).any(axis=1))[0][0])
            bad("roundtrip", f"hilbert:n{n}:c->d->c", {"p": p, "cell": keepC[k].tolist()},
                keepC[k].tolist(), np.asarray(cb)[k].tolist())
        if d.min() < 0 or (n * p < 63 and d.max() > N - 1):
            bad("range", f"hilbert:n{n}:distance-range", {"p": p}, [0, N - 1], [int(d.min()), int(d.max())])
        for k in range(len(cells)):
            ctx.count("cells_reference")
            ref = oh.c2d(p, cells[k])
            if ref != int(d[k]):
                bad("reference", f"hilbert:n{n}:differs-from-skilling", {"p": p, "cell": cells[k]},
                    ref, int(d[k]))
                break
        # end points
        if int(d[len(cells) - 3]) != 0 or int(d[len(cells) - 2]) != N - 1:
            bad("endpoints", f"hilbert:n{n}:endpoints", {"p": p}, [0, N - 1],
                [int(d[len(cells) - 3]), int(d[len(cells) - 2])])
        # refinement between p and p-1
        if p > 1:
            dpar = guarded(hc.distances_from_coordinates, p - 1, keepC >> 1)
            if dpar is None:
                return
            ctx.count("refinement_checked", len(d))
            if not np.array_equal(np.asarray(dpar), d >> n):
                k = int(np.nonzero(np.asarray(dpar) != (d >> n))[0][0])
                bad("refinement", f"hilbert:n{n}:refinement", {"p": p, "cell": keepC[k].tolist()},
                    int(d[k] >> n), int(dpar[k]))
        # adjacency of consecutive distances
        hs = np.unique(np.concatenate([rng.integers(0, N - 1, per, dtype=np.int64),
                                       np.array([0, N - 2], dtype=np.int64)]))
        c0 = guarded(hc.coordinates_from_distances, p, n, hs.copy())
        c1 = guarded(hc.coordinates_from_distances, p, n, hs + 1)
        if c0 is None or c1 is None:
            return
        stepv = np.abs(np.asarray(c1) - np.asarray(c0)).sum(axis=1)
        ctx.count("adjacency_sampled", len(hs))
        if not (stepv == 1).all():
            k = int(np.nonzero(stepv != 1)[0][0])
            bad("adjacency", f"hilbert:n{n}:non-unit-step", {"p": p, "h": int(hs[k])},
                np.asarray(c0)[k].tolist(), np.asarray(c1)[k].tolist())
        # scalar entry points
        for k in range(0, len(cells), 7):
            ds = guarded(hc.distance_from_coordinate, p, np.array(cells[k], dtype=np.int64))
            cs = guarded(hc.coordinate_from_distance, p, n, int(d[k]))
            ctx.count("scalar_checked")
            if ds is None or cs is None:
                return
            if int(ds) != int(d[k]) or [int(v) for v in cs] != cells[k]:
                bad("scalar-vs-vector", f"hilbert:n{n}:scalar-entry", {"p": p, "cell": cells[k]},
                    [int(d[k]), cells[k]], [int(ds), [int(v) for v in cs]])
                break
    ctx.sample({"n": n, "p": 3, "curve_prefix": [oh.d2c(3, n, k) for k in range(6)]})
    ctx.extra["exhaustive_blocks"] = {f"n{n}": [p for p in range(1, PMAX[n] + 1) if n * p <= bits]}


def replay(ctx, v):
    from spatialpandas.spatialindex import hilbert_curve as hc
    c = v["case"]
    n, p = c["n"], c["p"]
    if "h" in c:
        h = int(c["h"])
        got = np.asarray(hc.coordinates_from_distances(p, n, np.array([h], dtype=np.int64)))[0].tolist()
        ref = oh.d2c(p, n, h)
        ctx.count("cells_reference")
        if got != ref:
            ctx.violation("reference", f"hilbert:n{n}:differs-from-skilling", {"p": p, "h": h}, ref, got)
    if "cell" in c:
        d = int(hc.distances_from_coordinates(p, np.array([c["cell"]], dtype=np.int64))[0])
        ref = oh.c2d(p, c["cell"])
        ctx.count("cells_reference")
        if d != ref:
            ctx.violation("reference", f"hilbert:n{n}:differs-from-skilling", {"p": p, "cell": c["cell"]}, ref, d)
    ctx.count("evaluations")
