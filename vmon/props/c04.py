"""C04 - .cx selects exactly the intersecting rows, with or without a spatial index.

Monitor on the real coordinate indexer of arrays, GeoSeries and GeoDataFrames: (a) the exact
C01 oracle mask applied to the container by position, (b) the same query on an index-free
copy, (c) omitted / reversed slice ends normalised with the exact total extent; rows must
come back in original order with their labels and other columns untouched."""
import numpy as np

from .. import arrays as A
from .. import gen_frames as gf
from .. import gen_geom as gg
from .. import oracle_geom as og
from ..ctx import exc_in_repo, short_exc, stable_hash

RULE = ("cases = (kind, subtype, elements, container, index labels, index state (never built / "
        "built with (p, page_size), page_size in {1,2,3,4,7,64,512}), query ends pattern "
        "(present/omitted/reversed)); elements from the C01 generators with missing and empty rows "
        "and duplicates, one row, zero rows; boxes on the half grid with positive width and height; "
        "non-trivial = query selecting at least one and not all rows; distinct = hash of "
        "(kind, subtype, elements, container, index state, query)")
ASSUMPTIONS = ["exactness domain as in C01; boxes of positive width and height",
               "omitted ends are replaced by the exact total extent (C13 oracle)"]
USE_CONTRACTS = True      # in-situ icontract monitors (vmon/contracts.py)
SPLIT_KINDS = True         # thorough tier: one shard per geometry kind
DECIDING_COUNTERS = ["queries_checked", "differential_checked"]

CONTAINERS = ["array", "series", "frame"]
PAGE_SIZES = [1, 2, 3, 4, 7, 64, 512]


def shards(tier, seed):
    subs = A.pick_subtypes(tier, seed, n_quick=2)
    n = 30 if tier == "quick" else 450
    groups = [["point", "multipoint", "line"], ["ring", "multiline"], ["polygon"], ["multipolygon"]]
    out = []
    for kinds in groups:
        for b in ("J", "B"):
            out.append({"name": f"{'+'.join(kinds)}-{b}", "build": b,
                        "params": {"kinds": kinds, "subtypes": subs, "cases": n if b == "J" else n // 2}})
    return out


def _floats(e):
    if e is None:
        return None
    if isinstance(e, (list, tuple)):
        return [_floats(v) for v in e]
    return float(e)


def gen_case(rng, kind, subtype):
    G = 5
    r = rng.random()
    n = 0 if r < 0.05 else 1 if r < 0.12 else int(rng.integers(2, 14))
    els = [gg.rand_element(rng, kind, G) for _ in range(n)]
    if n > 2 and rng.random() < 0.4:
        els[int(rng.integers(n))] = els[int(rng.integers(n))]            # duplicate
    allc = [v for e in els for v in gg.coords_of(kind, e)]
    lo, hi = (min(allc), max(allc)) if allc else (0, G)
    s, tx, ty = A.fit_transform(rng, kind, els, subtype, hi - lo)
    tx -= lo * s
    ty -= lo * s
    if subtype == "float32" and kind in ("point", "multipoint") and rng.random() < 0.4:
        # coordinates at even integers just above 2**24; the odd integers between them (box ends below) are
        # not representable in the coordinate subtype
        s, tx, ty = 2, 2 ** 24 - 2 * lo + 2, 2 ** 24 - 2 * lo + 6
        els = [_floats(gg.transform(e, kind, s, tx, ty)) for e in els]   # (arrow refuses big Python ints for float32)
    else:
        els = [gg.transform(e, kind, s, tx, ty) for e in els]
    inert = [None] + gg.empty_elements(kind)
    if kind == "point" and np.dtype(subtype).kind == "f":
        inert.append([float("nan"), float("nan")])      # a present point without coordinates
    for _ in range(int(rng.integers(0, 4))):
        if n == 0:
            break
        els.insert(int(rng.integers(0, len(els) + 1)), inert[int(rng.integers(len(inert)))])
    if n and rng.random() < 0.06:
        els = [inert[int(rng.integers(len(inert)))] for _ in els]          # all inert
    qs = []
    vals_x = list(range(2 * (lo - 1) * s + 2 * tx, 2 * (hi + 1) * s + 2 * tx + 1, s))
    vals_y = list(range(2 * (lo - 1) * s + 2 * ty, 2 * (hi + 1) * s + 2 * ty + 1, s))
    for _ in range(7):
        x0, x1 = sorted(int(v) for v in rng.choice(vals_x, 2, replace=False))
        y0, y1 = sorted(int(v) for v in rng.choice(vals_y, 2, replace=False))
        if rng.random() < 0.15:
            x0, x1 = vals_x[0], vals_x[-1]
            y0, y1 = vals_y[0], vals_y[-1]                                   # covers everything
        if not subtype.startswith("float") and rng.random() < 0.5:
            # box ends strictly between the values an integer coordinate subtype can hold (half-integers)
            x0, x1, y0, y1 = (v + int(rng.choice([-1, 1])) if v % 2 == 0 and rng.random() < 0.7 else v
                              for v in (x0, x1, y0, y1))
        q = [x0, x1, y0, y1]
        if rng.random() < 0.25:
            q[0], q[1] = q[1], q[0]
        if rng.random() < 0.25:
            q[2], q[3] = q[3], q[2]
        for k in range(4):
            if rng.random() < 0.2:
                q[k] = None
        qs.append(q)
    cfg = None
    if rng.random() < 0.75:
        cfg = [int(rng.choice([1, 10, 20])), int(rng.choice(PAGE_SIZES))]
    return {"kind": kind, "subtype": subtype, "elements": els,
            "container": CONTAINERS[int(rng.integers(3))],
            "index_kind": gf.INDEX_KINDS[int(rng.integers(len(gf.INDEX_KINDS)))],
            "sindex": cfg, "form": ["direct", "sliced", "take"][int(rng.integers(3))],
            "queries2": qs, "seed": int(rng.integers(2 ** 31)),
            "derive": [None, None, "tail", "head", "from", "neg-head", "copy"][int(rng.integers(7))]}


def build(case, with_index):
    """(object, labels or None, records or None, underlying array)"""
    from spatialpandas import GeoDataFrame, GeoSeries
    import pandas as pd
    kind, subtype, els = case["kind"], case["subtype"], case["elements"]
    rng = np.random.default_rng(case["seed"])
    arr = A.build_form(kind, els, subtype, case["form"], rng)
    n = len(els)
    idx = gf.make_index(np.random.default_rng(case["seed"] + 1), n, case["index_kind"])
    if case["container"] == "array":
        obj = arr
    elif case["container"] == "series":
        obj = GeoSeries(arr, index=idx)
    else:
        obj = GeoDataFrame({"rid": np.arange(n) + 1000, "shape": arr,
                            "val": np.arange(n) * 0.5, "txt": [f"t{i}" for i in range(n)]},
                           index=idx)
    if with_index and case["sindex"]:
        p, ps = case["sindex"]
        obj = obj.build_sindex(p=p, page_size=ps)
    return obj, idx


def derive(obj, container, how, n):
    """Derive a child object from an (indexed) parent; returns (child, positions kept)."""
    k = max(1, n // 3)
    if how == "tail":
        sl = slice(-k, None)
    elif how == "head":
        sl = slice(None, k)
    elif how == "from":
        sl = slice(k, None)
    elif how == "neg-head":
        sl = slice(None, -k)
    else:
        sl = slice(None, None)
    pos = list(range(n))[sl]
    if how == "copy":
        return (obj.copy(), pos)
    if container == "array":
        return obj[sl], pos
    return obj.iloc[sl], pos


def snapshot(obj, container):
    if container == "array":
        return gg.pylist(obj)
    if container == "series":
        return (list(obj.index), gg.pylist(obj.array), obj.index.name)
    return (gf.frame_records(obj), list(obj.columns), obj.index.name)


def check_case(ctx, case):
    kind, subtype, els = case["kind"], case["subtype"], case["elements"]
    container = case["container"]
    n = len(els)

    def rec_raise(where, e, tb):
        if exc_in_repo(tb) or isinstance(e, IndexError):
            inert = "all-inert" if (n and all(gg.is_inert(kind, x) for x in els)) else (
                "n0" if n == 0 else "has-inert" if any(gg.is_inert(kind, x) for x in els) else "plain")
            ctx.violation("raised", f"cx:{where}:{container}:{inert}:{type(e).__name__}",
                          {"kind": kind, "subtype": subtype, "container": container, "n": n,
                           "sindex": case["sindex"]}, observed=short_exc(e), case=case,
                          msg=tb[-1500:])
            return True
        raise e

    ok, r, tb = ctx.guarded(build, case, True)
    if not ok:
        return rec_raise("build", r, tb)
    obj, idx = r
    ok, r2, tb = ctx.guarded(build, case, False)
    if not ok:
        return rec_raise("build-noindex", r2, tb)
    plain, _ = r2
    if case.get("derive") and n > 1:
        # index state "built on the parent, then sliced": the child must answer for its own rows
        ok, d1, tb = ctx.guarded(derive, obj, container, case["derive"], n)
        if not ok:
            return rec_raise("derive", d1, tb)
        ok, d2, tb = ctx.guarded(derive, plain, container, case["derive"], n)
        if not ok:
            return rec_raise("derive-noindex", d2, tb)
        obj, pos = d1
        plain = d2[0]
        els = [els[i] for i in pos]
        idx = [idx[i] for i in pos]
        n = len(els)
        case = {**case, "elements_after_derivation": els}
    arr = obj if container == "array" else (obj.array if container == "series" else obj["shape"].array)
    vals = gg.pylist(arr)
    if len(vals) != n or not all(gg.same_value(a, b) for a, b in zip(vals, els)):
        ctx.count("form_values_differ")
        return
    before = snapshot(obj, container)
    # exact total extent (doubled units)
    coords = [v for e in vals if not gg.is_inert(kind, e) for v in gg.coords_of(kind, e)]
    ext2 = None
    if coords:
        xs, ys = coords[0::2], coords[1::2]
        ext2 = [2 * min(xs), 2 * max(xs), 2 * min(ys), 2 * max(ys)]
    els2 = [None if (kind == "point" and gg.is_inert(kind, e)) else gg.transform(e, kind, 2, 0, 0) for e in vals]
    has_inert = any(gg.is_inert(kind, e) for e in vals)
    indexed = getattr(arr, "_sindex", None) is not None
    ps = case["sindex"][1] if case["sindex"] else None
    rel = ("noindex" if not case["sindex"] else "ps=1" if ps == 1 else "ps<n" if ps < n else "ps>=n")
    for q in case["queries2"]:
        pattern = "".join("o" if v is None else "p" for v in q)
        x0, x1, y0, y1 = [None if v is None else v / 2.0 for v in q]
        rev = ("rx" if (q[0] is not None and q[1] is not None and q[1] < q[0]) else "") + \
              ("ry" if (q[2] is not None and q[3] is not None and q[3] < q[2]) else "")
        # normalised box in doubled units
        if any(v is None for v in q) and ext2 is None:
            ctx.count("skipped_omitted_end_without_extent")
            continue
        b = [q[0] if q[0] is not None else ext2[0], q[2] if q[2] is not None else ext2[2],
             q[1] if q[1] is not None else ext2[1], q[3] if q[3] is not None else ext2[3]]
        bx = og.norm_box(b)
        if bx[0] == bx[2] or bx[1] == bx[3]:
            ctx.count("skipped_degenerate_box")
            continue
        ok, res, tb = ctx.guarded(lambda: obj.cx[slice(x0, x1), slice(y0, y1)])
        if not ok:
            rec_raise("query", res, tb)
            continue
        ok, res2, tb = ctx.guarded(lambda: plain.cx[slice(x0, x1), slice(y0, y1)])
        if not ok:
            rec_raise("query-noindex", res2, tb)
            continue
        B = np.array([bx], dtype=np.int64)
        mask = np.array([bool(og.element_box_many(kind, e2, B)[0]) for e2 in els2], dtype=bool)
        sel = np.nonzero(mask)[0].tolist()
        ctx.count("queries_checked")
        cov = ovl = 0
        if indexed:
            try:
                c_, o_ = arr._sindex.covers_overlaps((bx[0] / 2, bx[1] / 2, bx[2] / 2, bx[3] / 2))
                cov, ovl = len(c_), len(o_)
            except Exception:  # noqa: BLE001
                pass
        if cov:
            ctx.require("covered-rows-shortcut-taken", True)
        ctx.sig(kind, container, "indexed" if indexed else "noindex", f"derived-{case.get('derive')}" if case.get("derive") else "-", rel, pattern, rev or "-",
                "inert" if has_inert else "-", "cov+" if cov else "cov0",
                "none" if not sel else "all" if len(sel) == n else "some")
        ctx.case([kind, subtype, els, container, case["sindex"], q],
                 nontrivial=0 < len(sel) < max(n, 1) or (n == 1 and len(sel) == 1))
        exp_vals = [vals[i] for i in sel]
        w = {"kind": kind, "subtype": subtype, "container": container, "index_kind": case["index_kind"],
             "sindex": case["sindex"], "query": [x0, x1, y0, y1], "elements": vals if n <= 14 else n,
             "expected_rows": sel}
        small = {**case, "queries2": [q]}
        mech_tail = f"{'indexed' if indexed else 'noindex'}:{'inert' if has_inert else 'plain'}:" \
                    f"{'omitted' if 'o' in pattern else 'explicit'}{':' + rev if rev else ''}"

        def got_rows(r_):
            if container == "array":
                return gg.pylist(r_), None
            if container == "series":
                return gg.pylist(r_.array), list(r_.index)
            return gg.pylist(r_["shape"].array), list(r_.index)
        for name, r_ in (("with-index" if indexed else "no-index", res), ("index-free-copy", res2)):
            gv, gl = got_rows(r_)
            good = len(gv) == len(exp_vals) and all(gg.same_value(a, b_) for a, b_ in zip(gv, exp_vals))
            if good and gl is not None:
                good = gl == [idx[i] for i in sel]
            if good and container == "frame":
                recs = gf.frame_records(r_)
                good = (recs == [before[0][i] for i in sel] and list(r_.columns) == before[1]
                        and r_.index.name == before[2] and type(r_).__name__ == "GeoDataFrame")
            if good and container == "series":
                good = type(r_).__name__ == "GeoSeries" and r_.index.name == before[2]
            if not good:
                ctx.violation("rows", f"cx:wrong-rows:{kind}:{container}:{name}:{mech_tail}", w,
                              expected=[idx[i] if container != "array" else i for i in sel],
                              observed=gl if gl is not None else gv, case=small)
        ctx.count("differential_checked")
        a1, l1 = got_rows(res)
        a2, l2 = got_rows(res2)
        if l1 != l2 or len(a1) != len(a2) or not all(gg.same_value(x, y) for x, y in zip(a1, a2)):
            ctx.violation("index-dependence", f"cx:index-changes-result:{kind}:{container}:{mech_tail}",
                          w, expected=l2 if l2 is not None else a2,
                          observed=l1 if l1 is not None else a1, case=small)
        if len(ctx.samples) < 4 and 0 < len(sel) < n:
            ctx.sample({"kind": kind, "container": container, "sindex": case["sindex"],
                        "query": [x0, x1, y0, y1], "n_rows": n, "selected_rows": sel})
    # the source object is untouched
    after = snapshot(obj, container)
    ctx.count("source_untouched_checked")
    if after != before and not _snap_equal(after, before):
        ctx.violation("source-modified", f"cx:modifies-source:{container}", {"kind": kind},
                      case=case)


def _snap_equal(a, b):
    try:
        return stable_hash(_nanfix(a)) == stable_hash(_nanfix(b))
    except Exception:  # noqa: BLE001
        return False


def _nanfix(o):
    if isinstance(o, float) and o != o:
        return "NaN"
    if isinstance(o, (list, tuple)):
        return [_nanfix(x) for x in o]
    if isinstance(o, dict):
        return {k: _nanfix(v) for k, v in o.items()}
    return o


def run(ctx, spec):
    p = spec["params"]
    ctx.require("covered-rows-shortcut-taken", False)
    for kind in p["kinds"]:
        for subtype in p["subtypes"]:
            for _ in range(p["cases"]):
                check_case(ctx, gen_case(ctx.rng, kind, subtype))


def replay(ctx, v):
    check_case(ctx, v["case"])
