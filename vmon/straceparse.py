"""Parser of `strace -f -e trace=openat,open,creat,mkdir,mkdirat,rename,renameat,renameat2,
unlink,unlinkat,rmdir -o LOG` output: an independent, syscall-level recorder of file
creation / removal / rename (catches files created behind the fsspec object or outside the
sandbox)."""
import os
import re

_LINE = re.compile(r"^(\d+)\s+(\w+)\((.*)\)\s+=\s+(-?\d+)(.*)$")
_UNFIN = re.compile(r"^(\d+)\s+(\w+)\((.*)<unfinished \.\.\.>$")
_RESUM = re.compile(r"^(\d+)\s+<\.\.\.\s+(\w+)\s+resumed>(.*)\)\s+=\s+(-?\d+)(.*)$")
_STR = re.compile(r'"((?:[^"\\]|\\.)*)"')


def _paths(args):
    return [bytes(m, "utf-8").decode("unicode_escape") for m in _STR.findall(args)]


def parse(log_path, start_marker=None, end_marker=None):
    """Returns list of events {op, paths, ret, flags} between the two marker paths
    (mkdir of the marker paths delimits the window)."""
    events = []
    pending = {}
    active = start_marker is None
    with open(log_path, errors="replace") as f:
        for line in f:
            line = line.rstrip("\n")
            m = _LINE.match(line)
            if m:
                pid, op, args, ret = m.group(1), m.group(2), m.group(3), int(m.group(4))
            else:
                u = _UNFIN.match(line)
                if u:
                    pending[u.group(1)] = (u.group(2), u.group(3))
                    continue
                r = _RESUM.match(line)
                if not r or r.group(1) not in pending:
                    continue
                pid = r.group(1)
                op, a0 = pending.pop(pid)
                args, ret = a0 + r.group(3), int(r.group(4))
            ps = _paths(args)
            if op in ("mkdir", "mkdirat") and ps:
                if start_marker and ps[-1] == start_marker:
                    active = True
                    events = []
                    continue
                if end_marker and ps[-1] == end_marker:
                    break
            if not active:
                continue
            events.append({"op": op, "paths": ps, "ret": ret, "args": args[-120:]})
    return events


def summarize(events, cwd="/"):
    """(created, removed, renames) as absolute paths of *successful* calls."""
    created, removed, renames = [], [], []

    def ab(p):
        return os.path.normpath(p if p.startswith("/") else os.path.join(cwd, p))
    for e in events:
        if e["ret"] < 0 or not e["paths"]:
            continue
        op = e["op"]
        if op in ("openat", "open", "creat"):
            if "O_CREAT" in e["args"] or op == "creat":
                created.append(ab(e["paths"][0]))
        elif op in ("mkdir", "mkdirat"):
            created.append(ab(e["paths"][-1]))
        elif op in ("unlink", "unlinkat", "rmdir"):
            removed.append(ab(e["paths"][-1]))
        elif op in ("rename", "renameat", "renameat2") and len(e["paths"]) >= 2:
            renames.append((ab(e["paths"][0]), ab(e["paths"][1])))
    return created, removed, renames
