#!/venv/bin/python
"""Single entry point:  vcheck.py <Cxx> --tier quick|thorough [--replay file]"""
import argparse
import os
import sys

HERE = os.path.dirname(os.path.abspath(__file__))
sys.path.insert(0, HERE)


def main():
    ap = argparse.ArgumentParser()
    ap.add_argument("prop")
    ap.add_argument("--tier", default=None, choices=["quick", "thorough"])
    ap.add_argument("--replay", default=None)
    ap.add_argument("--seed", type=int, default=None)
    a = ap.parse_args()
    tier = a.tier or os.environ.get("VERIF_TIER") or "quick"
    seed = a.seed if a.seed is not None else int(os.environ.get("VERIF_SEED", "0") or 0)
    if sys.executable != "/venv/bin/python" and os.path.exists("/venv/bin/python") \
            and not os.environ.get("VCHECK_REEXEC"):
        os.environ["VCHECK_REEXEC"] = "1"
        os.execv("/venv/bin/python", ["/venv/bin/python", os.path.abspath(__file__)] + sys.argv[1:])
    from vmon import runner
    rc = runner.main(a.prop, tier, seed, replay=a.replay)
    sys.stdout.flush()
    sys.exit(rc)


if __name__ == "__main__":
    main()
