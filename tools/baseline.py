#!/venv/bin/python
"""Run the repository's pinned suite (guard OFF) and compare with BASELINE.json's
stable_pass list.  Exit 0 iff every stable-pass test still passes."""
import json, os, subprocess, sys, tempfile
import xml.etree.ElementTree as ET
base = json.load(open("/root/.vp/BASELINE.json"))
want = set(base["stable_pass"])
out = tempfile.mktemp(suffix=".junit.xml")
env = dict(os.environ); env.pop("SPATIALPANDAS_VERIF", None)
cmd = ["/venv/bin/python", "-m", "pytest", "-ra", "-q", "-p", "no:cacheprovider", "--timeout=900",
       "--continue-on-collection-errors", f"--junitxml={out}"] + sys.argv[1:]
p = subprocess.run(cmd, cwd=os.environ.get("VERIF_REPO", "/repo"), env=env, stdout=subprocess.PIPE, stderr=subprocess.STDOUT)
passed = set()
for tc in ET.parse(out).getroot().iter("testcase"):
    if not any(ch.tag in ("failure", "error", "skipped") for ch in tc):
        passed.add(f"{tc.get('classname')}::{tc.get('name')}")
os.unlink(out)
missing = sorted(want - passed)
print(f"baseline: {len(want & passed)}/{len(want)} stable-pass tests pass; {len(passed - want)} extra passes")
for m in missing[:40]:
    print("  NOT PASSING:", m)
sys.exit(1 if missing else 0)
