"""Dev helper: run one shard of a property in-process and print the result summary.
usage: dev_run.py C01 quick <shard-index> [seed]"""
import importlib, json, os, sys, tempfile, time
sys.path.insert(0, os.environ.get("VERIF_REPO", "/repo"))
sys.path.insert(1, os.path.dirname(os.path.dirname(os.path.abspath(__file__))))
sys.path.append(os.path.join(os.path.dirname(os.path.dirname(os.path.abspath(__file__))), ".deps"))
from vmon.ctx import Ctx
prop, tier, idx = sys.argv[1], sys.argv[2], int(sys.argv[3])
seed = int(sys.argv[4]) if len(sys.argv) > 4 else 0
mod = importlib.import_module(f"vmon.props.{prop.lower()}")
specs = mod.shards(tier, seed)
print(len(specs), "shards:", [s["name"] for s in specs])
spec = specs[idx]
ctx = Ctx(prop, tier, seed, spec["name"], idx, spec.get("build", "J"), spec.get("params"))
ctx.scratch = tempfile.mkdtemp(prefix="vmon-dev-")
t = time.time()
mod.run(ctx, spec)
r = ctx.result()
print("wall", time.time() - t)
print("counters", r["counters"])
print("nontrivial", r["n_nontrivial"], "sigs", len(r["sigs"]))
for k, v in sorted(r["sigs"].items(), key=lambda kv: -kv[1])[:25]: print("   ", k, v)
print("required", r["required"])
print("viol_counts", r["viol_counts"])
for v in r["violations"][:5]:
    v = dict(v); v.pop("case", None); print(json.dumps(v)[:1500])
print("notes", r["notes"][:5]); print("extra", json.dumps(r["extra"])[:1500])
import shutil; shutil.rmtree(ctx.scratch, ignore_errors=True)
