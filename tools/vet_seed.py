#!/venv/bin/python
"""Vet a change proposed by a sub-agent and, if it holds up, keep it under /verif/seeded/<id>/.

  vet_seed.py <Cxx> <i> [extra check ids ...]

Confirms, in a fresh scratch worktree of /repo HEAD (never in /repo itself):
  1. the demonstration passes on the unchanged tree,
  2. the patch applies, the library's tests still give only the pre-existing failures,
  3. the demonstration fails with the change;
then runs the registered quick check(s) with VERIF_REPO=<scratch> and records which fire."""
import json
import os
import shutil
import subprocess
import sys
import tempfile

HERE = os.path.dirname(os.path.dirname(os.path.abspath(__file__)))
sys.path.insert(0, os.path.join(HERE, "selftest"))


def sh(cmd, **kw):
    return subprocess.run(cmd, shell=True, capture_output=True, text=True, **kw)


def main():
    prop, i = sys.argv[1], sys.argv[2]
    checks = [prop] + sys.argv[3:]
    src = os.path.join(os.environ.get("VET_SRC", "/tmp/seed_out"), prop)
    patch, demo, meta = (os.path.join(src, f"{n}{i}.{e}") for n, e in
                         (("patch", "diff"), ("demo", "py"), ("meta", "json")))
    for f in (patch, demo):
        if not os.path.exists(f):
            print("missing", f)
            return 2
    wt = tempfile.mkdtemp(prefix="vvet-")
    os.rmdir(wt)
    subprocess.run(["git", "-C", "/repo", "worktree", "add", "-q", "--detach", wt, "HEAD"], check=True)
    rec = {"property": prop, "source": "independent sub-agent given only the property text"}
    try:
        env = f"PYTHONPATH={wt} SPATIALPANDAS_VERIF= "
        r = sh(f"cd {wt} && {env} timeout 900 /venv/bin/python {demo}")
        rec["demo_on_unchanged_tree"] = {"rc": r.returncode, "tail": (r.stdout + r.stderr)[-300:]}
        r = sh(f"git -C {wt} apply {patch}")
        if r.returncode != 0:
            rec["error"] = "patch does not apply: " + r.stderr[-300:]
            print(json.dumps(rec, indent=1))
            return 1
        r = sh(f"cd {wt} && {env} /venv/bin/python -m pytest -q -p no:cacheprovider --timeout=900 spatialpandas/tests 2>&1 | tail -1")
        rec["tests_with_change"] = r.stdout.strip()[-200:]
        r = sh(f"cd {wt} && {env} timeout 900 /venv/bin/python {demo}")
        rec["demo_with_change"] = {"rc": r.returncode, "tail": (r.stdout + r.stderr)[-400:]}
    finally:
        subprocess.run(["git", "-C", "/repo", "worktree", "remove", "--force", wt])
    ok = (rec["demo_on_unchanged_tree"]["rc"] == 0 and rec["demo_with_change"]["rc"] != 0
          and "17 failed" in rec["tests_with_change"] and "491 passed" in rec["tests_with_change"])
    rec["confirmed"] = ok
    from run_mutants import run_one
    res = run_one(patch, checks)
    rec["checks"] = checks
    rec["check_results"] = res
    rec["caught_by"] = [p for p, r in res.items() if isinstance(r, dict) and r.get("rc") == 1]
    try:
        m = json.load(open(meta))
        rec["what_changed"] = m.get("what_changed")
        rec["needs_to_manifest"] = m.get("needs_to_manifest")
        rec["why_it_breaks_the_property"] = m.get("why_it_breaks_the_property")
    except Exception:  # noqa: BLE001
        pass
    rec["what_i_ran"] = [f"demo on a scratch worktree of /repo HEAD (rc {rec['demo_on_unchanged_tree']['rc']}), "
                         f"git apply + pytest spatialpandas/tests ({rec['tests_with_change']}), demo with the change "
                         f"(rc {rec['demo_with_change']['rc']})",
                         "selftest/run_mutants.py <patch> " + ",".join(checks) + " --tier quick"]
    if ok:
        out = os.path.join(HERE, "seeded", f"{prop}-{int(i) + int(os.environ.get('VET_OFFSET', '0'))}")
        os.makedirs(out, exist_ok=True)
        shutil.copy(patch, os.path.join(out, "patch.diff"))
        shutil.copy(demo, os.path.join(out, "demo.py"))
        json.dump(rec, open(os.path.join(out, "meta.json"), "w"), indent=1)
    print(json.dumps({k: rec[k] for k in ("confirmed", "tests_with_change", "caught_by")}, indent=0))
    for p, r in res.items():
        if isinstance(r, dict):
            print("  ", p, "rc", r.get("rc"), (r.get("mechanisms") or [""])[0][:220])
    return 0


if __name__ == "__main__":
    sys.exit(main())
