#!/venv/bin/python
"""Silence sweep: run every registered check for the given tier and seeds against /repo and
print one verdict line each (any non-zero exit on the unchanged tree is a defect of the
machinery or of the repository and must be looked at).
   sweep.py quick 1 2 3      sweep.py thorough 0  [--only C01,C02] [--jobs 2]"""
import concurrent.futures as cf
import json, os, subprocess, sys, time
HERE = os.path.dirname(os.path.dirname(os.path.abspath(__file__)))
args = sys.argv[1:]
tier = args[0]
only = None
jobs = 1
seeds = []
i = 1
while i < len(args):
    if args[i] == "--only":
        only = args[i + 1].split(","); i += 2
    elif args[i] == "--jobs":
        jobs = int(args[i + 1]); i += 2
    else:
        seeds.append(args[i]); i += 1
props = [json.loads(l)["id"] for l in open(os.path.join(HERE, "properties.jsonl"))]
if only:
    props = [p for p in props if p in only]
def go(job):
    p, s = job
    t = time.time()
    env = dict(os.environ, VERIF_SEED=str(s)); env.pop("VERIF_TIER", None); env.pop("VERIF_REPO", None)
    r = subprocess.run(["/venv/bin/python", os.path.join(HERE, "vcheck.py"), p, "--tier", tier], cwd=HERE, env=env,
                       capture_output=True, text=True)
    lines = [l for l in r.stdout.splitlines() if l.startswith(("VIOLATION", "INCONCLUSIVE", "KNOWN-FINDING", "  clause"))]
    head = [l for l in r.stdout.splitlines() if l.startswith(f"[{p}] tier")]
    return p, s, r.returncode, time.time() - t, (head[0] if head else r.stdout[-300:] + r.stderr[-300:]), lines[:6]
with cf.ThreadPoolExecutor(max_workers=jobs) as ex:
    for p, s, rc, dt, head, lines in ex.map(go, [(p, s) for s in seeds for p in props]):
        print(f"{p} seed={s} rc={rc} {dt:.0f}s  {head[:150]}", flush=True)
        for l in lines:
            print("     ", l[:260], flush=True)
