#!/venv/bin/python
"""Generate /verif/MANIFEST.json from the table below (kept in one place so that the
manifest, the check modules present under vmon/props and the not_applicable list cannot
drift apart).  Validates against /root/.vp/MANIFEST.schema.json when jsonschema is there."""
import json
import os
import sys

HERE = os.path.dirname(os.path.dirname(os.path.abspath(__file__)))
sys.path.insert(0, HERE)
sys.path.append(os.path.join(HERE, ".deps"))

LEVEL = {
    "C01": ("exploration", "runtime monitor: exact integer/raster oracle on every (element, box) answer of the real intersects_bounds in J and bounds-checked builds, plus form agreement",
            "Every answer of the real predicate (array / inds / scalar / GeoSeries forms, four corner orders, five provenance forms) is judged by an exact oracle that shares nothing with the implementation, on complete half-grid box sweeps around hostile shapes; holds for the executions observed (about 1.3e6 quick / 2e7 thorough evaluations), not a proof.",
            "exactness domain (ints/half-integers within subtype bounds), polygons valid by construction, pyarrow to_pylist as independent read-back, numba NUMBA_BOUNDSCHECK instrumentation"),
    "C02": ("exploration", "runtime monitor: exact point-vs-shape oracle (equality / collinearity / even-odd parity with on-ring detection) + raster cross-check, J and B builds",
            "Every (point, shape) answer of PointArray.intersects / Point.intersects / GeoSeries.intersects on complete half-grid point sweeps (all ray-through-vertex, ray-along-edge and collinear-beyond-end situations are produced and required) is compared with the exact oracle; boundary points only for agreement of forms.",
            "exactness domain; valid polygons; points on rings excluded from the truth clause as the statement says"),
    "C03": ("exploration", "runtime monitor: brute-force shadow index per HilbertRtree instance, every (p, page_size) configuration of the same input",
            "intersects / covers_overlaps / total_bounds of the real index are compared with brute force over the snapshotted input for n in 0..70, 257, 1000, 5000, d in 1..3, ties, duplicates, NaN rows, all page sizes around n; answers must not depend on the configuration.",
            "NaN rows may appear as uncovered candidates; queries have min<=max"),
    "C07": ("exploration", "runtime monitor: model-free curve laws on complete sweeps + independent big-int Skilling reference",
            "All cells of every (n,p) grid up to 2^16 (quick) / 2^20 (thorough) cells are swept exhaustively through the vectorised entry points (round trips, permutation, unit steps, refinement, end points), scalar entry points exhaustively up to 2^12; larger orders on boundary and random cells against the reference.",
            "np <= 62 bits; exhaustive only for the blocks listed in the evidence"),
    "C08": ("exploration", "runtime monitor: exact rational reference cell + reference curve where scaling is exact, metamorphic independence elsewhere",
            "hilbert_distance of the real arrays is checked for range, exact value (power-of-two extents), independence of position / slicing / strangers / container, every total_bounds sequence type (and that it is not modified), degenerate extents.",
            "reference equality only where float scaling is exact"),
    "C13": ("exploration", "runtime monitor: min/max over independently read-back coordinates vs the real bounds/total_bounds getters (array, GeoSeries, Dask, R-tree)",
            "Values are read, never computed, so the comparison is exact for arbitrary representable coordinates including non-finite ones; missing/empty elements anywhere, five provenance forms plus hostile null slots, zero rows.",
            "to_pylist read-back; ints below 2^50"),
    "C14": ("exploration", "runtime monitor: exact shoelace / rational-or-50-digit length references, ring lists for boundary, translation invariance, form agreement",
            "length/area/boundary of the real arrays, scalars and GeoSeries on degenerate rings, many holes/parts, NaN-broken lines, missing and empty elements, all subtypes, in J and bounds-checked builds.",
            "closed rings for the area clause; float32 exact cases only"),
    "C15": ("exploration", "runtime monitor: exact ring areas, cyclic-sequence comparison, buffer hashes before/after, idempotence, intersection re-evaluation, bounds-checked build",
            "oriented() on arrays covering every clockwise/counter-clockwise pattern of shells and holes (all 2^rings patterns up to 4 rings), degenerate rings, missing elements first/last/everywhere, sliced arrays.",
            "orientation clauses on closed rings; intersection/area clauses on polygons with holes wound opposite to the shell"),
    "C16": ("exploration", "runtime monitor: shadow model advanced through replayable derivation histories + fresh-array differential for every derived quantity + table of required errors",
            "1-8 step histories over 14 derivation operations for all kinds and subtypes; after every step elements (to_pylist) equal the model and seven derived quantities equal those of a fresh array bit for bit.",
            "fresh array as reference; string keys are not in the error table (repository declares invalid index types unsupported)"),
}


LEVEL.update({
    "C04": ("exploration", "runtime monitor on the real coordinate indexer: exact C01 oracle mask by position + index-free differential + exact extent for omitted/reversed ends",
            "cx on arrays, GeoSeries and GeoDataFrames (default/named/string/non-unique/shuffled index, extra columns) with index never built or built with p in {1,10,20} x page_size in {1,2,3,4,7,64,512}; rows must come back in order with labels and other columns untouched; the covered-rows shortcut is a required situation.",
            "exactness domain as C01; boxes of positive width and height"),
    "C05": ("exploration", "runtime monitor: nested-loop reference join with the exact C02 oracle, results compared as multisets of complete rows",
            "sjoin (pandas x pandas) for inner/left/right, right frames of six kinds with overlapping shapes, duplicate and missing points, missing shapes, empty sides, clashing column names, four index kinds, three suffix pairs.",
            "row and column order not compared; numeric values compared as floats; boundary pairs are don't-care"),
    "C06": ("exploration", "runtime monitor: client-boundary differential of every Dask operation against the pandas twin (rows matched by unique ids)",
            "eight provenances x 1..8 partitions (empty, all-missing, fully covered partitions) x cx / cx_partitions / bounds / total_bounds / area / length / intersects_bounds / sjoin inner+left; ordered comparison, multiset for sjoin, whole-partition containment for cx_partitions.",
            "pandas operations decided by C01-C05/C13/C14; synchronous scheduler"),
    "C09": ("exploration", "runtime monitor: conservation over unique row ids + Hilbert index recomputed on the pandas twin + sortedness + partition count, from two input partitionings",
            "pack_partitions on frames of every kind with missing/duplicate geometries, 1-5 input partitions incl. pre-sorted and filtered (empty) ones, npartitions 1..12, p in {1,2,6,10,15,20}.",
            "a raising call claims nothing; all-raised run is inconclusive"),
    "C10": ("exploration", "runtime monitor: final-state scan of the sandbox + conservation over the recording filesystem's event log + row/order model on three independent read-backs",
            "pack_partitions_to_parquet for npartitions 1..16 (every pattern of empty outputs), three tempdir modes, three compressions, overwrite over a larger / smaller previous dataset; the dataset listing must be exactly parts + metadata files, nothing else anywhere.",
            "flat tempdir formats with pre-existing parent; synchronous scheduler; strace recorder not used in the registered tiers"),
    "C11": ("exploration", "runtime monitor: round-trip ledger (deep snapshot at write time compared at read time, projection/concatenation applied to the snapshot)",
            "pandas and Dask routes, 7 kinds x 5 subtypes, unconstrained elements incl. NaN/inf/empty/missing, sliced/concatenated/taken arrays, six index kinds, three compressions, 1..13 partitions, projections in arbitrary order, list and glob of two datasets, plus a probe for value-equal frames of different subtype.",
            "Dask route compared with ddf.compute() before writing"),
    "C12": ("exploration", "runtime monitor: stored bounds read at three observation points vs extents recomputed from the loaded partitions; exact prune-set and no-row-lost oracle",
            "datasets written by Dask to_parquet and pack_partitions_to_parquet with 1..16 partitions, two geometry columns, geometry= choices, list/glob of two datasets, boxes touching an extent exactly / reversed / disjoint / covering.",
            "NaN recorded extents: only the no-row-lost clause"),
    "C17": ("exploration", "runtime monitor: paired execution on F and F + inert rows, results aligned through row positions / ids (metamorphic, arbitrary floats)",
            "all kinds; inert forms {missing, every empty form, all-NaN}; placements first/last/page-sized block/whole Dask partition/scattered/all rows; bounds, total_bounds, measures, predicates, R-tree, cx with/without index, sjoin (inert on either side), hilbert_distance, Dask cx/total_bounds/pack_partitions; hostile null slots for points.",
            "inert rows may be uncovered R-tree candidates"),
    "C18": ("exploration", "runtime monitor: schedule perturbation (dask scheduler x workers x numba threads x 1us switch interval x sys.monitoring yield injection x delay-injecting filesystem) + result-determinism oracle + offline fs-trace checker",
            "every listed operation under each configuration vs the serial single-thread reference; N client threads on one shared array / R-tree / frame / Dask series incl. first access; concurrent pack_partitions_to_parquet calls; evidence reports distinct interleavings observed.",
            "no race detector understands numba prange or CPython attribute caches: races that never change a result, raise or touch a file in the runs produced are invisible"),
    "C19": ("fault_enumeration", "fault enumeration: every outermost filesystem call position x {OSError, FileNotFoundError, half-written file, stale listing} x repetition counts, golden-snapshot oracle, recovery run",
            "thorough: exhaustive single faults for four configurations (temp dir inside/outside x with/without empty outputs), all kinds and repetition counts, sampled pairs; quick: seeded stride-3 sample. Completed runs must equal the golden sandbox; raised runs must recover with overwrite=True.",
            "synchronous scheduler with deterministic uuids so that position k names the same operation; existence-check flips are reported only"),
    "C20": ("exploration", "runtime monitor: frame-state model (expected active geometry, expected type) advanced through replayable operation histories + single-geometry twin for spatial operations, pandas and every Dask partition",
            "frames with 3-4 geometry columns (active neither first nor named 'geometry', optional decoy column named 'geometry'); 16 operations incl. concat, Dask compute, parquet re-read with geometry=<any>; cx / sjoin / pack_partitions / partition bounds must use the active column.",
            "subset dropping the active column re-synchronises the model (not constrained by the statement)"),
})
DESIGN_REF = {p: f"DESIGN.md section 3, {p}" for p in LEVEL}
NOT_YET = {}

_OLD_NOT_YET = {
    "C04": "check under construction in this session (cx with/without index); not claimed until it has been run silent on the unchanged tree",
    "C05": "check under construction (reference nested-loop join); not claimed yet",
    "C06": "check under construction (Dask vs pandas differential); not claimed yet",
    "C09": "check under construction (pack_partitions conservation/order); not claimed yet",
    "C10": "check under construction (dataset scan + fs event conservation); not claimed yet",
    "C11": "check under construction (round-trip ledger); not claimed yet",
    "C12": "check under construction (stored partition bounds / pruning); not claimed yet",
    "C17": "check under construction (paired execution with inert rows); not claimed yet",
    "C18": "check under construction (schedule perturbation + determinism oracle); not claimed yet",
    "C19": "check under construction (exhaustive single-fault enumeration); not claimed yet",
    "C20": "check under construction (frame-state model over operation histories); not claimed yet",
}


def main():
    props = [json.loads(l)["id"] for l in open(os.path.join(HERE, "properties.jsonl"))]
    have = {p for p in props if os.path.exists(os.path.join(HERE, "vmon", "props", f"{p.lower()}.py"))
            and p in LEVEL}
    checks = []
    for p in props:
        if p not in have:
            continue
        cat, tech, text, note = LEVEL[p]
        checks.append({
            "property_id": p,
            "quick_cmd": f"/venv/bin/python vcheck.py {p} --tier quick",
            "thorough_cmd": f"/venv/bin/python vcheck.py {p} --tier thorough",
            "evidence_file": f"evidence/{p}.json",
            "replay_cmd_template": f"/venv/bin/python vcheck.py {p} --replay {{path}}",
            "engine": "vmon",
            "level_claimed": {"category": cat, "text": text, "design_ref": DESIGN_REF[p]},
            "level_note": note,
            "technique": tech,
        })
    na = [{"property_id": p, "reason": NOT_YET.get(p, "not claimed")} for p in props if p not in have]
    manifest = {
        "version": 1,
        "setup_cmd": "/venv/bin/python -m vmon.deps",
        "hooks": {
            "guard": "SPATIALPANDAS_VERIF",
            "enable": "no source hooks: monitors are attached to the real classes at run time by the harness (vmon.contracts) when SPATIALPANDAS_VERIF=1; the repository is imported from $VERIF_REPO (default /repo) working tree",
            "baseline_off_cmd": "/venv/bin/python tools/baseline.py",
            "source_commits": [],
            "add_only": True,
        },
        "engines": [{"name": "vmon", "path": "vmon/", "serves_properties": sorted(have),
                     "kind_free_text": "runtime monitoring: sharded workloads against the real code in production-JIT and NUMBA_BOUNDSCHECK builds, exact oracles, shadow models, trace checkers"}],
        "checks": checks,
        "not_applicable": na,
        "notes": "Every check: exit 0 held / exit 1 VIOLATION lines / exit 2 INCONCLUSIVE (deciding monitor not reached). Known findings: known_findings.json. Repairs of genuine defects are 'fix:' commits in /repo, listed as fixed entries there.",
    }
    try:
        import jsonschema
        jsonschema.validate(manifest, json.load(open("/root/.vp/MANIFEST.schema.json")))
    except ImportError:
        pass
    with open(os.path.join(HERE, "MANIFEST.json"), "w") as f:
        json.dump(manifest, f, indent=1)
    print("MANIFEST.json:", len(checks), "checks;", len(na), "not claimed")


if __name__ == "__main__":
    main()
